"""Hypothesis strategies for build programs and history steps (DESIGN.md section 4).

Everything is built by construction (no filtering): output paths are drawn from a prefix-free set
that avoids the cache file's ancestors, query paths avoid the masked directories (latitude L2),
callees have a larger index than their caller (DAG), and external mutations never touch the cache
path or its ancestors.
"""
from hypothesis import strategies as st

from .dsl import QUERY_KINDS

CACHES = ['cache.gz', 'cache.gz', 'cache.gz', 'cache.gz', 'cd/cache.gz', 'cd/e/cache.gz', 'c/cache.gz', 'b/cache.gz']


def make_universe(names=('a', 'b'), depth=3, extra=('c', 'c/a')):
    out = []

    def rec(pre, d):
        for n in names:
            p = pre + [n]
            out.append('/'.join(p))
            if d > 1:
                rec(p, d - 1)
    rec([], depth)
    return out + [e for e in extra if e not in out]


UNIV_SMALL = make_universe()
UNIV_BIG = make_universe(('a', 'b', 'c'), 3, ('d', 'd/a', 'd/a/b/c'))

DEFAULT_CFG = {
    'universe': UNIV_SMALL,
    'max_funcs': 5,
    'max_body': 4,
    'max_root': 5,
    'probe_w': 2,          # weight (out of 10) of a probe among root statements
    'inner_probe': 0.0,    # probability that a function body gets a probe statement
    'raise_w': 1,
    'catch_p': 0.8,
    'root_catch_p': 0.93,
    'caches': CACHES,
    'cmp': ['METADATA', 'HASH'],
    'args': 'small',
    'kinds': None,         # restrict function kinds
    'query_kinds': QUERY_KINDS,
    'nonjson_p': 0.03,
    'nowrite_p': 0.07,
}


def cfg_with(**kw):
    c = dict(DEFAULT_CFG)
    c.update(kw)
    return c


_PCT = st.sampled_from(range(100))


def chance(draw, p):
    """True with probability ~p (Hypothesis' bounded floats are heavily biased to 0/1; integers are not)."""
    return draw(_PCT) < int(round(p * 100))


def cache_ancestors(cache_rel):
    parts = cache_rel.split('/')[:-1]
    return ['/'.join(parts[:i + 1]) for i in range(len(parts))]


def prefix_free(cands, forbidden):
    outs = []
    for p in cands:
        if p in forbidden:
            continue
        if not any(p == o or p.startswith(o + '/') or o.startswith(p + '/') for o in outs):
            outs.append(p)
    return outs


small_args = st.lists(st.one_of(st.integers(0, 2), st.sampled_from(['x', 'y'])), max_size=2)


@st.composite
def program(draw, cfg=DEFAULT_CFG, cache_rel='cache.gz'):
    univ = cfg['universe']
    masked = set(cache_ancestors(cache_rel))
    qpaths = [p for p in univ if p not in masked] + ['']
    path = st.sampled_from(qpaths)
    cmp_ = st.sampled_from(cfg['cmp'])
    qkind = st.sampled_from(cfg['query_kinds'])
    query = st.tuples(st.just('q'), qkind, path, cmp_).map(list)
    nfun = draw(st.integers(1, cfg['max_funcs']))
    names = ['f%d' % i for i in range(nfun)]
    kinds = [draw(st.sampled_from(cfg['kinds'] or ['file', 'file', 'sub'])) for _ in names]
    if 'file' not in kinds and draw(st.booleans()):
        kinds[-1] = 'file'
    cand = draw(st.lists(st.sampled_from(univ), min_size=1, max_size=6, unique=True))
    outs = prefix_free(cand, masked | {cache_rel})
    if not outs:
        outs = prefix_free([p for p in univ], masked | {cache_rel})[:1]
    opath = st.sampled_from(outs)
    funcs = {}

    def call(j, top=False):
        catch = chance(draw, cfg['root_catch_p'] if top else cfg['catch_p'])
        a = draw(small_args)
        if kinds[j] == 'file':
            tgt = draw(opath)
            if draw(st.integers(0, 39)) == 0:
                tgt = cache_rel          # build_file on the cache file: must be refused
            return ['bf', tgt, names[j], a, draw(cmp_), catch]
        return ['sb', names[j], a, catch]

    def body(i, is_file, depth):
        stmts = []
        wrote = False
        for _ in range(draw(st.integers(0, cfg['max_body']))):
            c = draw(st.integers(0, 9))
            if c <= 3:
                stmts.append(draw(query))
            elif c <= 6 and i + 1 < nfun:
                stmts.append(call(draw(st.integers(i + 1, nfun - 1))))
            elif c == 7 and depth < 2:
                q = [draw(st.just('q')), draw(st.sampled_from(['exists', 'is_file', 'is_dir'])), draw(path), 'METADATA']
                stmts.append(['if', q, body(i, False, depth + 1), body(i, False, depth + 1)])
            elif c == 8 and draw(st.integers(0, 9)) < cfg['raise_w'] * 3:
                stmts.append(['raise'])
            elif c == 9 and is_file and not wrote and depth == 0:
                stmts.append(['write'])
                wrote = True
        if is_file and depth == 0 and not wrote and not chance(draw, cfg['nowrite_p']):
            stmts.insert(draw(st.integers(0, len(stmts))), ['write'])
        if depth == 0 and chance(draw, cfg['nonjson_p']):
            stmts.append(['ret_nonjson'])
        if depth == 0 and cfg['inner_probe'] and chance(draw, cfg['inner_probe']):
            stmts.insert(draw(st.integers(0, len(stmts))), ['probe'])
        return stmts

    for i in reversed(range(nfun)):
        funcs[names[i]] = {'kind': kinds[i], 'body': body(i, kinds[i] == 'file', 0)}
    root = []
    for _ in range(draw(st.integers(1, cfg['max_root']))):
        c = draw(st.integers(0, 9))
        if c < 10 - cfg['probe_w'] - 2:
            root.append(call(draw(st.integers(0, nfun - 1)), True))
        elif c < 10 - cfg['probe_w']:
            root.append(draw(query))
        else:
            root.append(['probe'])
    return {'root': root, 'funcs': {n: funcs[n] for n in names}, 'universe': list(univ)}


VERSION_VALUES = [None, 1, 2, 'x', 1.0, True, [1], {'a': 1}]
version_value = st.sampled_from(VERSION_VALUES)


def versions_for(names, max_size=2):
    return st.dictionaries(st.sampled_from(names), version_value, max_size=max_size)


def ext_step(paths, weights=None):
    """One external mutation step over the given relative paths."""
    p = st.sampled_from(paths)
    tag = st.integers(0, 2)
    return st.one_of(
        st.tuples(st.just('write'), p, tag).map(list),
        st.tuples(st.just('write'), p, tag).map(list),
        st.tuples(st.just('rm'), p).map(list),
        st.tuples(st.just('mkdir'), p).map(list),
        st.tuples(st.just('touch'), p).map(list),
        st.tuples(st.just('swap'), p).map(list),
        st.just(['rm_cache']),
    )
