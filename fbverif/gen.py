"""Hypothesis strategies for build programs and history steps (DESIGN.md section 4).

Everything is built by construction (no filtering): output paths are drawn from a prefix-free set
that avoids the cache file's ancestors, query paths avoid the masked directories (latitude L2),
callees have a larger index than their caller (DAG), and external mutations never touch the cache
path or its ancestors.
"""
import os

from hypothesis import strategies as st

from .dsl import QUERY_KINDS

CACHES = ['cache.gz', 'cache.gz', 'cache.gz', 'cache.gz', 'cd/cache.gz', 'cd/e/cache.gz', 'c/cache.gz', 'b/cache.gz', 'a/b/cache.gz']


def make_universe(names=('a', 'b'), depth=3, extra=('c', 'c/a', 'ab', 'ab/a', 'ab/b', 'a/ba')):
    out = []

    def rec(pre, d):
        for n in names:
            p = pre + [n]
            out.append('/'.join(p))
            if d > 1:
                rec(p, d - 1)
    rec([], depth)
    for e in extra:
        parts = e.split('/')
        for i in range(1, len(parts) + 1):
            p = '/'.join(parts[:i])
            if p not in out:
                out.append(p)       # the universe is closed under ancestors (probe consistency checks rely on it)
    return out


UNIV_SMALL = make_universe()
UNIV_BIG = make_universe(('a', 'b', 'c'), 3, ('d', 'd/a', 'd/a/b/c'))

DEFAULT_CFG = {
    'universe': UNIV_SMALL,
    'max_funcs': 5,
    'max_body': 4,
    'max_root': 5,
    'probe_w': 2,          # weight (out of 10) of a probe among root statements
    'inner_probe': 0.0,    # probability that a function body gets a probe statement
    'raise_w': 1,
    'catch_p': 0.8,
    'root_catch_p': 0.93,
    'caches': CACHES,
    'cmp': ['METADATA', 'HASH'],
    'args': 'small',
    'kinds': None,         # restrict function kinds
    'query_kinds': QUERY_KINDS,
    'nonjson_p': 0.03,
    'nowrite_p': 0.07,
    'alt_roots_p': 0.0,
    'kwargs_p': 0.0,
}


def cfg_with(**kw):
    c = dict(DEFAULT_CFG)
    c.update(kw)
    return c


_PCT = st.sampled_from(range(100))


def chance(draw, p):
    """True with probability ~p (Hypothesis' bounded floats are heavily biased to 0/1; integers are not)."""
    return draw(_PCT) < int(round(p * 100))


def cache_ancestors(cache_rel):
    parts = cache_rel.split('/')[:-1]
    return ['/'.join(parts[:i + 1]) for i in range(len(parts))]


def prefix_free(cands, forbidden):
    outs = []
    for p in cands:
        if p in forbidden:
            continue
        if not any(p == o or p.startswith(o + '/') or o.startswith(p + '/') for o in outs):
            outs.append(p)
    return outs


# user code may raise any exception class (the library must propagate the same object, C02/C10)
raise_stmt = st.sampled_from([['raise']] * 6 + [['raise', 'type'], ['raise', 'value'], ['raise', 'os'], ['raise', 'fnf'], ['raise', 'runtime']])

small_args = st.lists(st.one_of(st.integers(0, 2), st.sampled_from(['x', 'y'])), max_size=2)


@st.composite
def program(draw, cfg=DEFAULT_CFG, cache_rel='cache.gz'):
    univ = cfg['universe']
    masked = set(cache_ancestors(cache_rel))
    qpaths = [p for p in univ if p not in masked] + ['']
    path = st.sampled_from(qpaths)
    cmp_ = st.sampled_from(cfg['cmp'])
    qkind = st.sampled_from(cfg['query_kinds'])
    query = st.tuples(st.just('q'), qkind, path, cmp_).map(list)
    nfun = draw(st.integers(1, cfg['max_funcs']))
    names = ['f%d' % i for i in range(nfun)]
    kinds = [draw(st.sampled_from(cfg['kinds'] or ['file', 'file', 'sub'])) for _ in names]
    if 'file' not in kinds and draw(st.booleans()):
        kinds[-1] = 'file'
    cand = draw(st.lists(st.sampled_from(univ), min_size=1, max_size=6, unique=True))
    outs = prefix_free(cand, masked | {cache_rel})
    if not outs:
        outs = prefix_free([p for p in univ], masked | {cache_rel})[:1]
    if cfg.get('nonprefix_p') and chance(draw, cfg['nonprefix_p']):
        # targets that are ancestors of each other: at most one of such calls can succeed in a build (the other fails
        # in setup with NotADirectoryError / IsADirectoryError), so the outputs themselves stay prefix-free
        outs = [p for p in cand if p not in masked and p != cache_rel] or outs
    opath = st.sampled_from(outs)
    funcs = {}
    counter = [0]
    unused = list(outs)

    def call(j, top=False):
        catch = chance(draw, cfg['root_catch_p'] if top else cfg['catch_p'])
        a = draw(small_args)
        if cfg.get('unique_calls') and chance(draw, cfg['unique_calls']):
            counter[0] += 1
            a = [counter[0]]
        kw = {}
        if cfg.get('kwargs_p') and chance(draw, cfg['kwargs_p']):
            kw = draw(st.dictionaries(st.sampled_from(['k', 'opt']), st.one_of(st.integers(0, 1), st.sampled_from(['v', None]), st.lists(st.integers(0, 1), max_size=2)), min_size=1, max_size=2))
        if kinds[j] == 'file':
            tgt = draw(opath)
            if cfg.get('unique_calls') and unused:
                tgt = unused.pop(draw(st.integers(0, len(unused) - 1)))
            if draw(st.integers(0, 39)) == 0:
                tgt = cache_rel          # build_file on the cache file: must be refused
            return ['bf', tgt, names[j], a, draw(cmp_), catch] + ([kw] if kw else [])
        return ['sb', names[j], a, catch] + ([kw] if kw else [])

    def body(i, is_file, depth):
        stmts = []
        wrote = False
        qw = cfg.get('query_w', 4)
        cw = cfg.get('call_w', 3)
        for _ in range(draw(st.integers(0, cfg['max_body']))):
            c = draw(st.integers(0, qw + cw + 2))
            if c < qw:
                stmts.append(draw(query))
                continue
            if c < qw + cw:
                if i + 1 < nfun:
                    cl = call(draw(st.integers(i + 1, nfun - 1)))
                    if cl[0] == 'bf' and cl[1] != cache_rel and chance(draw, cfg.get('around_p', 0.12)):
                        # a query of an ancestor directory of the nested target before the call and a query of the target
                        # itself after it (the record then observes the same paths from both sides of the nested build)
                        anc = [d for d in ('/'.join(cl[1].split('/')[:k]) for k in range(1, cl[1].count('/') + 1)) if d not in masked]
                        if anc:
                            stmts.append(['q', draw(st.sampled_from(['exists', 'is_dir', 'list_dir'])), draw(st.sampled_from(anc)), 'METADATA'])
                        stmts.append(cl)
                        stmts.append(['q', draw(st.sampled_from(['get_size', 'is_file', 'exists', 'read_binary', 'declare_read'])), cl[1], draw(cmp_)])
                    else:
                        stmts.append(cl)
                continue
            c = c - qw - cw + 7
            if False:
                pass
            elif c == 7 and depth < 2:
                q = [draw(st.just('q')), draw(st.sampled_from(['exists', 'is_file', 'is_dir'])), draw(path), 'METADATA']
                stmts.append(['if', q, body(i, False, depth + 1), body(i, False, depth + 1)])
            elif c == 8 and draw(st.integers(0, 9)) < cfg['raise_w'] * 3:
                stmts.append(draw(raise_stmt))
            elif c == 9 and is_file and not wrote and depth == 0:
                stmts.append(['write'])
                wrote = True
        has_call = any(x[0] in ('bf', 'sb') for x in stmts)
        if depth == 0 and has_call and not any(x[0] == 'raise' for x in stmts) and chance(draw, cfg.get('fail_after_nested_p', 0.1)):
            stmts.append(draw(raise_stmt))      # the function fails after nested calls succeeded (their records sit below a failure)
        if depth == 0 and i + 1 < nfun and cfg.get('chain_p') and chance(draw, cfg['chain_p']):
            stmts.insert(draw(st.integers(0, len(stmts))), call(i + 1))
        if is_file and depth == 0 and not wrote and not chance(draw, cfg['nowrite_p']):
            stmts.insert(draw(st.integers(0, len(stmts))), ['write'])
        if depth == 0 and chance(draw, cfg['nonjson_p']):
            stmts.append(['ret_nonjson'])
        if depth == 0 and cfg['inner_probe'] and chance(draw, cfg['inner_probe']):
            stmts.insert(draw(st.integers(0, len(stmts))), ['probe'])
        return stmts

    for i in reversed(range(nfun)):
        funcs[names[i]] = {'kind': kinds[i], 'body': body(i, kinds[i] == 'file', 0)}
    root = []
    for _ in range(draw(st.integers(1, cfg['max_root']))):
        c = draw(st.integers(0, 9))
        if c < 10 - cfg['probe_w'] - 2:
            root.append(call(draw(st.integers(0, nfun - 1)), True))
        elif c < 10 - cfg['probe_w']:
            root.append(draw(query))
        else:
            root.append(['probe'])
    prog = {'root': root, 'funcs': {n: funcs[n] for n in names}, 'universe': list(univ)}
    if cfg.get('alt_roots_p') and chance(draw, cfg['alt_roots_p']):
        # variants of the root build function over the same cacheable functions (the root is not cached, so the user may
        # edit it freely between builds): other calls, other order, other arguments
        alts = []
        for _ in range(draw(st.integers(1, 2))):
            r2 = []
            for _ in range(draw(st.integers(1, cfg['max_root']))):
                c = draw(st.integers(0, 9))
                if c < 7:
                    r2.append(call(draw(st.integers(0, nfun - 1)), True))
                elif c < 9:
                    r2.append(draw(query))
                elif cfg['probe_w']:
                    r2.append(['probe'])
            alts.append(r2)
        prog['alt_roots'] = alts
    return prog


VERSION_VALUES = [None, 1, 2, 'x', 1.0, True, [1], {'a': 1}, 0, False, '', [], {}]     # falsy versions are versions too (seeded C01-k)
version_value = st.sampled_from(VERSION_VALUES)


def versions_for(names, max_size=2):
    return st.dictionaries(st.sampled_from(names), version_value, max_size=max_size)


def ext_step(paths, weights=None):
    """One external mutation step over the given relative paths."""
    p = st.sampled_from(paths)
    tag = st.integers(0, 2)
    return st.one_of(
        st.tuples(st.just('write'), p, tag).map(list),
        st.tuples(st.just('write'), p, tag).map(list),
        st.tuples(st.just('rm'), p).map(list),
        st.tuples(st.just('mkdir'), p).map(list),
        st.tuples(st.just('touch'), p).map(list),
        st.tuples(st.just('swap'), p).map(list),
        st.just(['rm_cache']),
    )


@st.composite
def tree_program(draw, cfg=DEFAULT_CFG, cache_rel='cache.gz'):
    """Programs whose call graph is a forest: every function has exactly one call site, so no key is
    requested twice and sub-trees are independent (C06, C13).  Depth of the chains: 1..max_funcs."""
    univ = cfg['universe']
    masked = set(cache_ancestors(cache_rel))
    qpaths = [p for p in univ if p not in masked] + ['']
    path = st.sampled_from(qpaths)
    cmp_ = st.sampled_from(cfg['cmp'])
    qkind = st.sampled_from(cfg['query_kinds'])
    query = st.tuples(st.just('q'), qkind, path, cmp_).map(list)
    nfun = draw(st.integers(2, cfg['max_funcs']))
    names = ['f%d' % i for i in range(nfun)]
    cand = draw(st.lists(st.sampled_from(univ), min_size=2, max_size=8, unique=True))
    outs = prefix_free(cand, masked | {cache_rel})
    kinds = []
    targets = {}
    for n in names:
        k = draw(st.sampled_from(cfg['kinds'] or ['file', 'file', 'sub']))
        if k == 'file' and not outs:
            k = 'sub'
        if k == 'file':
            targets[n] = outs.pop(draw(st.integers(0, len(outs) - 1)))
        kinds.append(k)
    parents = {}
    for j, n in enumerate(names):
        if j == 0:
            parents[n] = 'root'
        else:
            parents[n] = names[j - 1] if chance(draw, cfg.get('chain_p', 0.5)) else draw(st.sampled_from(['root'] + names[:j]))
    children = {n: [c for c in names if parents[c] == n] for n in names + ['root']}

    def call(n, top):
        catch = chance(draw, cfg['root_catch_p'] if top else cfg['catch_p'])
        a = draw(small_args)
        if kinds[names.index(n)] == 'file':
            return ['bf', targets[n], n, a, draw(cmp_), catch]
        return ['sb', n, a, catch]

    def insert_call(stmts, c, top):
        k = draw(st.integers(0, len(stmts)))
        cl = call(c, top)
        if cl[0] == 'bf' and cfg.get('around_p') and chance(draw, cfg['around_p']):
            # the same query of the target right before and right after the call that builds it (the answers differ
            # legitimately: absent / stale before, fresh output after), with a comparison mode of its own
            q = ['q', draw(qkind), cl[1], draw(cmp_)]
            stmts[k:k] = [list(q), cl, list(q)]
        else:
            stmts.insert(k, cl)

    funcs = {}
    for n, k in zip(names, kinds):
        stmts = [draw(query) for _ in range(draw(st.integers(0, cfg.get('tree_queries', 2))))]
        for c in children[n]:
            insert_call(stmts, c, False)
        if k == 'file' and not chance(draw, cfg['nowrite_p']):
            stmts.insert(draw(st.integers(0, len(stmts))), ['write'])
        if chance(draw, 0.04 * cfg['raise_w']):
            stmts.insert(draw(st.integers(0, len(stmts))), ['raise'])
        funcs[n] = {'kind': k, 'body': stmts}
    root = [draw(query) for _ in range(draw(st.integers(0, 2)))]
    for c in children['root']:
        insert_call(root, c, True)
    return {'root': root, 'funcs': funcs, 'universe': list(univ)}


@st.composite
def ancestor_pattern_program(draw, cfg=DEFAULT_CFG, cache_rel='cache.gz'):
    """Root-level (never nested, so never simultaneously in progress) build_file calls whose targets are ancestors of
    each other: F and F/child.  At most one of them can succeed; a failed attempt at F (function raises, caught)
    followed by a build of F/child turns a foreign *file* F into a directory within one build - and back on rollback."""
    univ = cfg['universe']
    masked = set(cache_ancestors(cache_rel))
    parents = [u for u in univ if u not in masked and any(v.startswith(u + '/') for v in univ)]
    deep_parents = [u for u in parents if any(v.startswith(u + '/') and v.count('/') >= u.count('/') + 2 for v in univ)]
    F = draw(st.sampled_from(deep_parents if deep_parents and draw(st.booleans()) else parents))
    kids = [v for v in univ if v.startswith(F + '/')]
    deep_kids = [v for v in kids if v.count('/') >= F.count('/') + 2]
    # (a target two or more levels below F: the directory chain between them has to be created as well)
    child = draw(st.sampled_from(deep_kids if deep_kids and draw(st.booleans()) else kids))
    modes = {'ok': [['write']], 'raise_after': [['write'], ['raise']], 'raise_before': [['raise']], 'no_create': []}
    funcs = {'f0': {'kind': 'file', 'body': modes[draw(st.sampled_from(['raise_after', 'raise_before', 'no_create', 'ok', 'ok']))]},
             'f1': {'kind': 'file', 'body': modes[draw(st.sampled_from(['ok', 'ok', 'raise_after']))]},
             'f2': {'kind': 'file', 'body': [['write']]}}
    calls = [['bf', F, 'f0', [], draw(st.sampled_from(cfg['cmp'])), True],
             ['bf', child, 'f1', [], draw(st.sampled_from(cfg['cmp'])), True]]
    if draw(st.booleans()):
        calls.reverse()
    root = []
    others = [u for u in univ if u not in masked and not u.startswith(F + '/') and not F.startswith(u + '/') and u != F]
    if others and draw(st.booleans()):
        root.append(['bf', draw(st.sampled_from(others)), 'f2', [], 'METADATA', True])
    root.extend(calls)
    def sprinkle(r):
        for _ in range(draw(st.integers(0, 3))):
            r.insert(draw(st.integers(0, len(r))), ['q', draw(st.sampled_from(['exists', 'is_file', 'is_dir', 'list_dir', 'walk'])),
                                                      draw(st.sampled_from([q for q in (F, child, os.path.dirname(F), '') if q not in masked])), 'METADATA'])
        if cfg.get('probe_w') and draw(st.booleans()):
            r.append(['probe'])
        return r
    root = sprinkle(root)
    prog = {'root': root, 'funcs': funcs, 'universe': list(univ)}
    # variants of the root function that request only one of the two paths: across builds an output *file* F becomes a
    # directory holding F/child and back (the user edits the uncached root function between builds)
    only_f = sprinkle([['bf', F, 'f2', [], draw(st.sampled_from(cfg['cmp'])), True]])
    only_child = sprinkle([['bf', child, draw(st.sampled_from(['f1', 'f0'])), [], draw(st.sampled_from(cfg['cmp'])), True]])
    prog['alt_roots'] = [only_f, only_child]
    return prog


@st.composite
def nested_failure_program(draw, cfg=DEFAULT_CFG, cache_rel='cache.gz'):
    """Records *below a caught failure*: a cacheable parent P catches the failure of F, whose function had
    successfully built Y (and possibly run a subbuild Z) before failing.  Later builds reuse P's record, which
    contains F's raised record with Y's successful record nested inside."""
    univ = cfg['universe']
    masked = set(cache_ancestors(cache_rel))
    qpaths = [p for p in univ if p not in masked] + ['']
    cand = draw(st.lists(st.sampled_from(univ), min_size=3, max_size=8, unique=True))
    outs = prefix_free(cand, masked | {cache_rel})
    if len(outs) < 3:
        # leaves of the universe are pairwise prefix-free
        leaves = [u for u in univ if not any(v.startswith(u + '/') for v in univ) and u not in masked and u != cache_rel]
        outs = prefix_free(outs + leaves, masked | {cache_rel})
    cmp_ = st.sampled_from(cfg['cmp'])
    query = st.tuples(st.just('q'), st.sampled_from(cfg['query_kinds']), st.sampled_from(qpaths), cmp_).map(list)

    def some_queries(n):
        return [draw(query) for _ in range(draw(st.integers(0, n)))]

    p_kind = draw(st.sampled_from(['sub', 'sub', 'file']))
    f_kind = draw(st.sampled_from(['file', 'file', 'sub']))
    same_dir = None
    if p_kind == 'file' and f_kind == 'file' and draw(st.booleans()):
        # the failing nested target and its caller's own target are siblings in one (new) directory
        pairs = [(x, y) for x in univ for y in univ if x != y and '/' in x and x.rsplit('/', 1)[0] == y.rsplit('/', 1)[0]
                 and all(q not in masked and q != cache_rel for q in (x, y, x.rsplit('/', 1)[0]))
                 and not any(v.startswith(x + '/') or v.startswith(y + '/') for v in univ)]
        if pairs:
            x, y = draw(st.sampled_from(pairs))
            rest = [o for o in outs if not (o == x or o == y or o.startswith(x + '/') or o.startswith(y + '/') or
                                            x.startswith(o + '/') or y.startswith(o + '/'))]
            if rest:
                outs = [rest[0], x, y] + rest[1:]
                same_dir = x.rsplit('/', 1)[0]
    funcs = {'y': {'kind': 'file', 'body': some_queries(1) + [['write']]}}
    f_body = some_queries(1) + [['bf', outs[0], 'y', [], draw(cmp_), True]]
    if draw(st.booleans()):
        funcs['z'] = {'kind': 'sub', 'body': some_queries(2)}
        f_body.insert(draw(st.integers(0, len(f_body))), ['sb', 'z', [draw(st.integers(0, 2))], True])
    fail = draw(st.sampled_from(['raise', 'raise', 'no_create', 'nonjson'] if f_kind == 'file' else ['raise', 'raise', 'nonjson']))
    if f_kind == 'file' and fail != 'no_create':
        f_body.insert(draw(st.integers(0, len(f_body))), ['write'])
    f_body.append(['raise'] if fail == 'raise' else ['ret_nonjson'] if fail == 'nonjson' else ['q', 'exists', '', 'METADATA'])
    funcs['f'] = {'kind': f_kind, 'body': f_body}
    f_call = ['bf', outs[1], 'f', [], draw(cmp_), True] if f_kind == 'file' else ['sb', 'f', [], True]
    p_body = some_queries(1) + [f_call] + some_queries(2)
    if same_dir is not None:
        k = p_body.index(f_call) + 1
        p_body.insert(k, ['q', draw(st.sampled_from(['is_dir', 'list_dir', 'exists', 'walk'])), same_dir, 'METADATA'])
    if p_kind == 'file':
        p_body.insert(draw(st.integers(0, len(p_body))), ['write'])
    funcs['p'] = {'kind': p_kind, 'body': p_body}
    p_call = ['bf', outs[2], 'p', [], draw(cmp_), True] if p_kind == 'file' else ['sb', 'p', [], True]
    if draw(st.sampled_from(range(3))) == 0:
        # one more cacheable level around the caller
        funcs['w'] = {'kind': 'sub', 'body': some_queries(1) + [p_call]}
        p_call = ['sb', 'w', [], True]
    root = some_queries(1) + [p_call]
    for _ in range(draw(st.integers(0, 2))):
        root.append(draw(st.one_of(query, st.just(['probe']))))
    if cfg.get('probe_w', 0) and not any(s[0] == 'probe' for s in root) and draw(st.booleans()):
        root.append(['probe'])
    prog = {'root': root, 'funcs': funcs, 'universe': list(univ)}
    # a sibling output below the same top-level directory as the failing nested target: whether that directory survives
    # the caught failure depends on whether the sibling was built before (root variant: the sibling call moves behind p)
    top = outs[1].split('/')[0]
    used = [outs[0], outs[1], outs[2]]
    sibs = [u for u in univ if u.startswith(top + '/') and u not in masked and u != cache_rel and
            all(not (u == o or u.startswith(o + '/') or o.startswith(u + '/')) for o in used)]
    if f_kind == 'file' and '/' in outs[1] and top not in masked and sibs and draw(st.sampled_from(range(4))):
        sib = draw(st.sampled_from(sibs))
        funcs['s'] = {'kind': 'file', 'body': [['write']]}
        s_call = ['bf', sib, 's', [], draw(cmp_), True]
        k = p_body.index(f_call) + 1
        for kind in draw(st.lists(st.sampled_from(['exists', 'is_dir', 'list_dir', 'walk']), min_size=1, max_size=2)):
            p_body.insert(k, ['q', kind, top, 'METADATA'])
        prog['root'] = [s_call] + root
        prog['alt_roots'] = [root + [s_call]]
        if draw(st.booleans()):
            prog['alt_roots'].append(list(root))
    return prog


@st.composite
def inprogress_ancestor_program(draw, cfg=DEFAULT_CFG, cache_rel='cache.gz'):
    """OUTSIDE the domain of the reference model (latitude L6): while build_file(P) is running - after it wrote P - its
    function requests build_file(P/child) (caught).  Only model-independent oracles may be applied to builds of such a
    program (C03: foreign files survive; the drive only runs builds that are rolled back)."""
    univ = cfg['universe']
    masked = set(cache_ancestors(cache_rel))
    parents = [u for u in univ if u not in masked and u != cache_rel and any(v.startswith(u + '/') for v in univ)]
    P = draw(st.sampled_from(parents))
    child = draw(st.sampled_from([v for v in univ if v.startswith(P + '/')]))
    body = [['write'], ['bf', child, 'ipa1', [], draw(st.sampled_from(cfg['cmp'])), True]]
    if draw(st.booleans()):
        body.append(['raise'])
    funcs = {'ipa0': {'kind': 'file', 'body': body}, 'ipa1': {'kind': 'file', 'body': [['write']]},
             'ipa2': {'kind': 'file', 'body': [['write']]}}
    root = [['bf', P, 'ipa0', [], draw(st.sampled_from(cfg['cmp'])), True]]
    others = [u for u in univ if u not in masked and u != cache_rel and not u.startswith(P + '/') and not P.startswith(u + '/') and u != P]
    if others and draw(st.booleans()):
        root.insert(draw(st.integers(0, 1)), ['bf', draw(st.sampled_from(others)), 'ipa2', [], 'METADATA', True])
    return {'root': root, 'funcs': funcs, 'universe': list(univ), 'alt_roots': [[s for s in root if s[2] == 'ipa2']]}


def mixed_program(cfg, cache_rel, patterns=1, general=4, ancestor=True):
    """General programs with a share of the directed pattern families.  ``ancestor=False`` keeps the output paths of a
    program prefix-free (latitude L6): to build a *file* at a path that a recorded build turned into a directory the
    library moves the recorded outputs below it away and rebuilds them, which the C05 rule has no clause for."""
    return weighted([(general, program(cfg, cache_rel)), (patterns, nested_failure_program(cfg, cache_rel))] +
                    ([(patterns, ancestor_pattern_program(cfg, cache_rel))] if ancestor else []))


def weighted(pairs):
    """Choice among strategies with integer weights (st.one_of de-duplicates repeated strategy objects, so repeating a
    strategy in its argument list does not weight it)."""
    idx = [i for i, (w, _s) in enumerate(pairs) for _ in range(w)]
    return st.sampled_from(idx).flatmap(lambda i: pairs[i][1])
