"""C05  Cache effectiveness: no unjustified re-execution."""
import os

from hypothesis import strategies as st

from .. import gen, histprop
from ..histprop import step

ID = 'C05'
LEVEL = 'exploration'
CLAUSES = ('C05',)
TECHNIQUE = 'justification oracle over reference-model trace trees of consecutive builds; invocation log + inode/mtime of outputs'
RULE = ('Each case = generated program + history in which every committed build is followed by one of: unchanged rebuild '
        '(twice), a mutation of a path no recorded operation observed, a single mutation of an observed path, or a general '
        'step. For every function the real library invokes, the oracle looks up the record of the same key in the previous '
        'committed trace and demands a reason from the property\'s list (no record, record raised, different name/args, '
        'version of it or of a nested function changed, nested setup failure, recorded output no longer matches, recorded '
        'event list differs from the from-scratch event list of this build); unchanged rebuilds may only re-run raised '
        'records; outputs whose function was not invoked keep inode and mtime. Non-trivial = a case with >=1 invocation '
        'judged against an existing non-raised record, or an unchanged rebuild on a record containing a caught failure; '
        'distinct = distinct scenario JSON.')
ASSUMPTIONS = [
    'user functions are deterministic, so equal recorded and from-scratch event lists imply every recorded query still answers the same',
    'L2/L3 answers (cache-only directories, size of a directory) make a re-execution undecidable: counted, not reported',
    'the oracle is skipped (and counted) on steps where C01/C04 already disagree',
]
CFG = gen.cfg_with(probe_w=1, max_root=6, max_funcs=6, raise_w=1, alt_roots_p=0.25, kwargs_p=0.15)


def unobserved_paths(h, cfg):
    lc = h.last_committed
    if not lc:
        return []
    obs = lc['observed']
    out = []
    for u in cfg['universe']:
        p = h.sb.ap(u)
        if h.protected(p):
            continue
        bad = False
        for q in obs:
            if q == p or q.startswith(p + '/') or p.startswith(q + '/') or os.path.dirname(p) == q:
                bad = True
                break
        if not bad:
            out.append(u)
    return out


def program_strategy(cfg, cache):
    return gen.mixed_program(cfg, cache, ancestor=False)


def drive(draw, h, cfg):
    names = list(h.prog_rel['funcs'])
    univ = cfg['universe']
    for _ in range(draw(st.sampled_from([0, 0, 1, 2, 3]))):
        step(h, histprop.draw_ext(draw, h, univ, bias=False))
    step(h, histprop.draw_build(draw, h, names, fail_p=0.0))
    for _ in range(draw(st.integers(1, 5))):
        if h.dead:
            break
        vers = h.last.get('versions', {}) if h.last else {}
        c = draw(st.sampled_from(['unchanged', 'unchanged2', 'unobserved', 'observed', 'observed', 'general', 'general']))
        if c == 'unchanged':
            step(h, ['build', vers, None])
        elif c == 'unchanged2':
            step(h, ['build', vers, None])
            if not h.dead:
                step(h, ['build', vers, None])
        elif c == 'unobserved':
            up = unobserved_paths(h, cfg)
            if up:
                h.stats['c05_unobserved_mutations'] += 1
                step(h, draw(gen.ext_step(up)))
            step(h, ['build', vers, None])
        elif c == 'observed':
            ip = histprop.interesting_paths(h)
            if ip:
                step(h, draw(gen.ext_step(ip)))
            step(h, ['build', vers, None])
        else:
            for _ in range(draw(st.integers(1, 2))):
                step(h, histprop.draw_ext(draw, h, univ))
            step(h, histprop.draw_build(draw, h, names, fail_p=0.1))


def nontrivial(h):
    return 'c05_refutable' in h.flags or 'c05_unchanged_with_raised' in h.flags


histprop.install(globals(), 12000, 300000)


def vacuity(counters, evaluations, tier):
    if counters['nontrivial_cases'] * 20 < evaluations:
        return 'non-trivial cases below 5%% (%d of %d)' % (counters['nontrivial_cases'], evaluations)
    if counters['c05_refutable_invocations'] < evaluations // 20:
        return 'too few invocations judged against a non-raised record'
    return None


LEVEL_TEXT = ('Randomised exploration with an oracle that refutes re-executions: each actual invocation must be justified from '
              'the reference model\'s traces of the previous and the current build; the "nothing changed" and "unobserved path" '
              'clauses are generated deliberately after every commit.')
LEVEL_NOTE = ('Trusted: the model\'s trace forest and the justification function in fbverif/harness.py. Misses are conservative '
              'for the library, so only a missing reason is reported, never a missing invocation (that would be C01).')
