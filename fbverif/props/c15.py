"""C15  Refused calls have no side effects."""
import collections
import gzip
import io
import json
import os
import traceback

from hypothesis import strategies as st

from .. import dsl, gen, hyp
from ..harness import BUILD_NAME, Harness
from ..runner import failure, small_hash
from ..sandbox import snapshot

ID = 'C15'
LEVEL = 'exploration'
CLAUSES = ('C15',)
TECHNIQUE = 'structural cache-file corruptor (byte, text and JSON level) and wrong-typed arguments on top of generated trees with a valid cache; oracle = bit-identical tree incl. inode, empty temp dir, no user function called'
RULE = ('Each evaluation = one refused-call attempt on a tree produced by a generated program (1-2 committed builds, outputs and '
        'created directories present): wrong-typed value at one argument position of build/build_versioned/clean, wrong build '
        'name, cache path that is a directory, or a corrupted cache file (each of these also through a symbolic link at the cache path) (truncation at header/middle/trailer/offset classes, '
        'bit flip at a drawn position, empty file, not gzip, gzip of non-JSON, gzip of JSON with wrong shape / other software / '
        'newer cacheFileVersion / missing or mistyped keys / unknown operation fields) for both build and clean. A call that '
        'raises without having called any user function is a rejection and must leave the tree bit-identical (bytes, mtime_ns, '
        'inode; cache file included) and the temp directory empty; for the enumerated classes the call must be rejected at all; '
        'a call on a damaged cache that raises only after user functions were called, while the same call with the valid cache does not, is a late refusal. '
        'Calls the library accepts (e.g. a flipped bit in the gzip header mtime) are counted, not judged. Non-trivial = a '
        'rejection observed on a tree with >=1 existing output and >=1 created directory; distinct = distinct (tree, attempt).')
ASSUMPTIONS = ['a corrupted cache file is an external change made between calls', 'the injected corruptions are deterministic functions of the valid cache bytes and Hypothesis draws']
CFG = gen.cfg_with(probe_w=0, max_root=4, max_funcs=4, raise_w=0, nonjson_p=0.0, nowrite_p=0.0, caches=['cache.gz', 'cache.gz', 'cd/cache.gz'])

MUST_REJECT = {'type', 'name', 'directory', 'truncate', 'empty', 'notgzip', 'notjson', 'shape', 'software', 'version'}


def regzip(obj_or_text):
    text = obj_or_text if isinstance(obj_or_text, str) else json.dumps(obj_or_text)
    buf = io.BytesIO()
    with gzip.GzipFile(fileobj=buf, mode='wb', mtime=0) as f:
        f.write(text.encode('utf-8', 'surrogatepass'))
    return buf.getvalue()


def corrupt(valid, spec):
    """Return (class, bytes) for a corruption spec."""
    kind = spec['kind']
    if kind == 'truncate':
        n = len(valid)
        off = {'header': min(5, n - 1), 'ten': min(10, n - 1), 'mid': n // 2, 'crc': max(0, n - 8), 'last': n - 1,
               'frac': int(n * spec.get('frac', 0.3))}[spec['where']]
        return 'truncate', valid[:max(0, min(off, n - 1))]
    if kind == 'empty':
        return 'empty', b''
    if kind == 'bitflip':
        pos = int(spec['pos'] * (len(valid) - 1))
        b = bytearray(valid)
        b[pos] ^= 1 << spec['bit']
        return 'bitflip', bytes(b)
    if kind == 'notgzip':
        return 'notgzip', [b'hello world', b'{"software": "file_builder"}', b'\x1f\x8b', b'PK\x03\x04zip'][spec['i']]
    if kind == 'notjson':
        return 'notjson', regzip(['hello', '{', '', '{"a": }', '[1, 2', 'NaN x'][spec['i']])
    data = json.loads(gzip.decompress(valid).decode())
    if kind == 'shape':
        return 'shape', regzip([[1, 2], 5, None, 'str', True, []][spec['i']])
    if kind == 'software':
        d = dict(data)
        if spec['i'] == 0:
            d['software'] = 'other_tool'
        elif spec['i'] == 1:
            d.pop('software')
        else:
            d['software'] = None
        return 'software', regzip(d)
    if kind == 'version':
        d = dict(data)
        d['cacheFileVersion'] = [1, '2.0', {'v': 3}][spec['i']]
        return 'version', regzip(d)
    if kind == 'keys':
        d = dict(data)
        k = ['rootOperations', 'createdDirs', 'funcVersions', 'operationVersions', 'buildName', 'cacheFileVersion'][spec['i']]
        if spec['how'] == 'drop':
            d.pop(k, None)
        else:
            d[k] = [None, 5, 'x', {'a': 1}][spec['j']]
        return 'keys', regzip(d)
    if kind == 'ops':
        d = json.loads(json.dumps(data))
        ops = d.get('rootOperations') or []
        if spec.get('deep'):
            # any operation of the forest, not only the roots (e.g. the record of a caught nested failure)
            allops = []
            stack = list(ops)
            while stack:
                o = stack.pop(0)
                if isinstance(o, dict):
                    if 'suboperations' in o or o.get('type') in ('build_file', 'subbuild'):
                        allops.append(o)
                    stack.extend(o.get('suboperations') or [])
            files = [o for o in allops if o.get('type') == 'build_file']
            if spec['how'] == 'badcmp' and files:
                allops = files
            ops = allops or ops
        if ops:
            op = ops[spec['i'] % len(ops)]
            how = spec['how']
            if how == 'droptype':
                op.pop('type', None)
            elif how == 'badcmp':
                op['fileComparison'] = 'NOPE'
                op['type'] = 'build_file'
                op.setdefault('filename', '/nonexistent/x')
            elif how == 'badfilename':
                # a build_file record (preferably one of a caught failure) whose filename is not a string
                cand = [o for o in ops if isinstance(o, dict) and o.get('type') == 'build_file']
                raised = [o for o in cand if o.get('raised')]
                tgt = (raised or cand or [op])[spec['i'] % len(raised or cand or [op])]
                tgt['type'] = 'build_file'
                tgt['filename'] = [None, 5, ['x'], {'a': 1}, True][spec['i'] % 5]
            elif how == 'dropargs':
                op.pop('args', None)
            elif how == 'subops':
                op['suboperations'] = 7
            elif how == 'unknowntype':
                op['type'] = 'teleport'
        else:
            d['rootOperations'] = [{'type': 'build_file'}]
        return 'ops', regzip(d)
    raise ValueError(kind)


corruption_specs = st.one_of(
    st.builds(lambda w, f: {'kind': 'truncate', 'where': w, 'frac': f}, st.sampled_from(['header', 'ten', 'mid', 'crc', 'last', 'frac']),
              st.floats(0.05, 0.95)),
    st.just({'kind': 'empty'}),
    st.builds(lambda p, b: {'kind': 'bitflip', 'pos': p, 'bit': b}, st.floats(0, 1), st.integers(0, 7)),
    st.builds(lambda i: {'kind': 'notgzip', 'i': i}, st.integers(0, 3)),
    st.builds(lambda i: {'kind': 'notjson', 'i': i}, st.integers(0, 5)),
    st.builds(lambda i: {'kind': 'shape', 'i': i}, st.integers(0, 5)),
    st.builds(lambda i: {'kind': 'software', 'i': i}, st.integers(0, 2)),
    st.builds(lambda i: {'kind': 'version', 'i': i}, st.integers(0, 2)),
    st.builds(lambda i, h, j: {'kind': 'keys', 'i': i, 'how': h, 'j': j}, st.integers(0, 5), st.sampled_from(['drop', 'set']), st.integers(0, 3)),
    st.builds(lambda i, h: {'kind': 'ops', 'i': i, 'how': h}, st.integers(0, 3),
              st.sampled_from(['droptype', 'badcmp', 'dropargs', 'subops', 'unknowntype'])),
    st.builds(lambda i, h: {'kind': 'ops', 'i': i, 'how': h, 'deep': True}, st.integers(0, 7),
              st.sampled_from(['droptype', 'badcmp', 'badcmp', 'dropargs', 'subops', 'unknowntype', 'badfilename', 'badfilename'])),
)

type_specs = st.sampled_from([
    {'kind': 'type', 'api': 'build', 'pos': 'build_name', 'val': 'int'},
    {'kind': 'type', 'api': 'build', 'pos': 'build_name', 'val': 'none'},
    {'kind': 'type', 'api': 'build', 'pos': 'build_name', 'val': 'bytes'},
    {'kind': 'type', 'api': 'build', 'pos': 'func', 'val': 'none'},
    {'kind': 'type', 'api': 'build', 'pos': 'func', 'val': 'str'},
    {'kind': 'type', 'api': 'build', 'pos': 'cache', 'val': 'int'},
    {'kind': 'type', 'api': 'build', 'pos': 'cache', 'val': 'none'},
    {'kind': 'type', 'api': 'build', 'pos': 'cache', 'val': 'list'},
    {'kind': 'type', 'api': 'build_versioned', 'pos': 'versions', 'val': 'list'},
    {'kind': 'type', 'api': 'build_versioned', 'pos': 'versions', 'val': 'none'},
    {'kind': 'type', 'api': 'build_versioned', 'pos': 'versions', 'val': 'nonjson'},
    {'kind': 'type', 'api': 'build_versioned', 'pos': 'versions', 'val': 'str'},
    {'kind': 'type', 'api': 'clean', 'pos': 'build_name', 'val': 'int'},
    {'kind': 'type', 'api': 'clean', 'pos': 'build_name', 'val': 'bytes'},
    {'kind': 'type', 'api': 'clean', 'pos': 'cache', 'val': 'int'},
    {'kind': 'type', 'api': 'clean', 'pos': 'cache', 'val': 'none'},
    {'kind': 'name', 'api': 'build'},
    {'kind': 'name', 'api': 'clean'},
    {'kind': 'name', 'api': 'build_versioned'},
    {'kind': 'name', 'api': 'build', 'name': ''},
    {'kind': 'name', 'api': 'build', 'name': ' '},
    {'kind': 'name', 'api': 'build', 'name': 'FBVERIF'},
    {'kind': 'name', 'api': 'build', 'name': 'fbverif '},
    {'kind': 'name', 'api': 'build', 'name': 'fbveri'},
    {'kind': 'name', 'api': 'build', 'name': '0'},
    {'kind': 'name', 'api': 'build', 'name': 'None'},
    {'kind': 'name', 'api': 'clean', 'name': ''},
    {'kind': 'name', 'api': 'clean', 'name': ' '},
    {'kind': 'name', 'api': 'clean', 'name': 'FBVERIF'},
    {'kind': 'name', 'api': 'clean', 'name': 'fbverif '},
    {'kind': 'name', 'api': 'clean', 'name': 'fbveri'},
    {'kind': 'name', 'api': 'clean', 'name': '0'},
    {'kind': 'name', 'api': 'clean', 'name': 'None'},
    {'kind': 'directory', 'api': 'build'},
    {'kind': 'directory', 'api': 'clean'},
])

BAD = {'int': 123, 'none': None, 'bytes': b'name', 'str': 'not callable', 'list': ['x'], 'nonjson': {'f0': {1, 2}}}


def link_path(h, spec):
    """The path whose link state is compared before/after an attempt made through a symbolic link."""
    return os.path.join(h.R, 'cache_link') if spec['kind'] == 'directory' else h.cache


def make_link(h, spec):
    """The cache path handed to the library is a symbolic link: to the (valid, misnamed or damaged) cache file that was
    moved aside, or - for the directory class - to a directory.  stat and open follow links, so the library has to treat
    the link like its target."""
    if spec['kind'] == 'directory':
        d = os.path.join(h.R, 'linked_dir')
        if not os.path.isdir(d):
            os.mkdir(d)
        os.symlink(d if spec['link'] == 'abs' else 'linked_dir', link_path(h, spec))
    else:
        real = h.cache + '.real'
        os.rename(h.cache, real)
        os.symlink(real if spec['link'] == 'abs' else os.path.basename(real), h.cache)


def undo_link(h, spec):
    lp = link_path(h, spec)
    if os.path.islink(lp):
        os.remove(lp)
    if spec['kind'] != 'directory' and os.path.isfile(h.cache + '.real') and not os.path.lexists(h.cache):
        os.rename(h.cache + '.real', h.cache)


def link_state(h, spec):
    lp = link_path(h, spec)
    return (os.path.islink(lp), os.readlink(lp) if os.path.islink(lp) else None)


def attempt(h, spec, called):
    """Perform one refused-call attempt; returns (class, raised?, exception) - the caller compares snapshots."""
    from file_builder import FileBuilder
    ctx = dsl.Ctx('real', h.prog, {}, 999, h.universe, h.masked)

    def root(b, *a, **k):
        called.append('<root>')
        return dsl.root_func(ctx)(b)
    cache = h.cache
    name = BUILD_NAME
    api = spec.get('api', 'build')
    func = root
    versions = {}
    cls = spec['kind']
    if spec['kind'] == 'type':
        v = BAD[spec['val']]
        if spec['pos'] == 'build_name':
            name = v
        elif spec['pos'] == 'func':
            func = v
        elif spec['pos'] == 'cache':
            cache = v
        else:
            versions = v
    elif spec['kind'] == 'name':
        name = spec.get('name', 'another build')
    elif spec['kind'] == 'directory':
        cache = os.path.dirname(h.cache) if os.path.dirname(h.cache) != h.R else h.R
        if spec.get('link'):
            cache = link_path(h, spec)
    try:
        if api == 'build':
            FileBuilder.build(cache, name, func)
        elif api == 'build_versioned':
            FileBuilder.build_versioned(cache, name, versions, func)
        else:
            FileBuilder.clean(cache, name)
        exc = None
    except Exception as e:
        exc = e
    called.extend(l['inv'] for l in ctx.log)
    return cls, exc


def run_tree(data, counters, fails, nontriv, samples, n_attempts):
    cache_rel = data.draw(st.sampled_from(CFG['caches']))
    # a quarter of the trees come from the nested-failure pattern: their caches hold records of caught failures
    prog = data.draw(gen.weighted([(3, gen.program(CFG, cache_rel)), (1, gen.nested_failure_program(CFG, cache_rel))]))
    h = Harness(prog, cache_rel, {'keep_going': True})     # other properties' oracles do not gate this check
    evals = 0
    try:
        names = list(prog['funcs'])
        for _ in range(data.draw(st.integers(0, 2))):
            h.apply(data.draw(gen.ext_step(CFG['universe'])))
        h.apply(['build', {}, None])
        if data.draw(st.booleans()):
            h.apply(data.draw(gen.ext_step(CFG['universe'])))
            h.apply(['build', data.draw(gen.versions_for(names)), None])
        if not os.path.isfile(h.cache):
            counters['trees_without_cache'] += 1
            return 0
        lc = h.last_committed or {'outputs': (), 'created': ()}
        # the user may have changed the tree since the last build (deleted outputs or created directories, planted files):
        # a refused call must leave such a tree alone as well (e.g. not re-create recorded directories)
        if data.draw(st.booleans()):
            victims = sorted(h.relp(p) for p in set(lc['outputs']) | set(lc['created']) if p.startswith(h.R + '/') and not h.protected(p))
            for _ in range(data.draw(st.integers(1, 2))):
                if victims and data.draw(st.booleans()):
                    h.apply(['rm', data.draw(st.sampled_from(victims))])
                else:
                    h.apply(data.draw(gen.ext_step([u for u in CFG['universe'] if not h.protected(h.sb.ap(u))])))
            counters['trees_tampered'] += 1
        if not os.path.isfile(h.cache):
            counters['trees_without_cache'] += 1
            return 0
        with open(h.cache, 'rb') as f:
            valid = f.read()
        st_valid = os.stat(h.cache)
        rich = bool(lc['outputs']) and bool(lc['created'])
        for _ in range(n_attempts):
            spec = data.draw(gen.weighted([(2, corruption_specs), (1, type_specs)]))
            if spec['kind'] != 'type' and data.draw(st.sampled_from(range(5))) == 0:
                spec = dict(spec, link=data.draw(st.sampled_from(['abs', 'rel'])))
                make_link(h, spec)
                counters['attempts_through_symlink'] += 1
            if spec['kind'] not in ('type', 'name', 'directory'):
                spec = dict(spec, api=data.draw(st.sampled_from(['build', 'build', 'clean'])))
                cls, blob = corrupt(valid, spec)
                with open(h.cache, 'wb') as f:
                    f.write(blob)
                os.utime(h.cache, ns=(st_valid.st_atime_ns, st_valid.st_mtime_ns))
            evals += 1
            pre = snapshot(h.R)
            lk_pre = link_state(h, spec) if spec.get('link') else None
            tmp_pre = h.sb.tmp_listing()
            called = []
            try:
                cls, exc = attempt(h, spec, called)
            except Exception:
                raise
            post = snapshot(h.R)
            lk_post = link_state(h, spec) if spec.get('link') else None
            case = {'prog': h.prog_rel, 'cache': cache_rel, 'steps': h.steps, 'attempt': spec}
            counters['attempt_' + cls] += 1
            rejected = exc is not None and not called
            if rejected:
                counters['rejections'] += 1
                if rich:
                    counters['rejections_on_rich_tree'] += 1
                    nontriv.add(small_hash(case))
                    if len(samples) < 3:
                        samples.append({'attempt': spec, 'exception': type(exc).__name__, 'cache': cache_rel, 'steps': h.steps,
                                        'outputs': sorted(h.relp(p) for p in lc['outputs'])})
                if post != pre or lk_post != lk_pre:
                    diff = sorted(h.relp(p) for p in set(pre) | set(post) if pre.get(p) != post.get(p))
                    fails.append(failure('C15.side_effect', 'rejected %s call (%s) changed the tree' % (spec.get('api', 'build'), cls), case,
                                         'exception=%r changed=%r link=%r->%r' % (exc, diff[:8], lk_pre, lk_post)))
                if h.sb.tmp_listing() != tmp_pre:
                    fails.append(failure('C15.tempdir', 'rejected call left a temporary directory behind', case, repr(h.sb.tmp_listing())))
            elif exc is not None:
                counters['raised_after_calling_user_code'] += 1
                if cls in MUST_REJECT:
                    fails.append(failure('C15.not_refused', 'a %s call with a %s defect called user code before failing' % (spec.get('api'), cls),
                                         case, ''.join(traceback.format_exception_only(type(exc), exc))[:500]))
                elif spec['kind'] not in ('type', 'name', 'directory') and not fails:
                    # the call was refused *late*: does the same call fail with the valid cache as well (then the generated
                    # program itself raises, e.g. an uncaught duplicate)?  The failed build was rolled back.
                    with open(h.cache, 'wb') as f:
                        f.write(valid)
                    os.utime(h.cache, ns=(st_valid.st_atime_ns, st_valid.st_mtime_ns))
                    called2 = []
                    _cls2, exc2 = attempt(h, dict(spec, kind='twin'), called2)
                    if exc2 is None or type(exc2) is not type(exc):
                        counters['late_refusals'] += 1
                        fails.append(failure('C15.late_refusal', 'a %s call on a cache with a %s defect (%s) raised %s after user functions '
                                             'had been called; with the valid cache it %s' % (
                                                 spec.get('api'), cls, spec.get('how') or spec.get('where') or '', type(exc).__name__,
                                                 'succeeds' if exc2 is None else 'raises ' + type(exc2).__name__), case,
                                             ''.join(traceback.format_exception(type(exc), exc, exc.__traceback__))[-1200:]))
            else:
                counters['accepted'] += 1
                counters['accepted_' + cls] += 1
                if cls in MUST_REJECT:
                    fails.append(failure('C15.not_refused', 'a %s call with a %s defect was accepted' % (spec.get('api'), cls), case, ''))
            if fails:
                return evals
            # put the valid cache back (bytes, mtime) for the next attempt; an accepted call may have changed the tree
            if exc is None or called:
                return evals
            if spec['kind'] not in ('type', 'name', 'directory'):
                with open(h.cache, 'wb') as f:
                    f.write(valid)
                os.utime(h.cache, ns=(st_valid.st_atime_ns, st_valid.st_mtime_ns))
            if spec.get('link'):
                undo_link(h, spec)
        return evals
    finally:
        h.close()


def plan(tier, seed):
    per = 300 if tier == 'quick' else 8000
    return [{'seed': seed * 971 + i, 'examples': per, 'tier': tier} for i in range(16)]


def run_shard(shard):
    counters = collections.Counter()
    fails = []
    nontriv = set()
    samples = []
    total = [0]

    def body(data):
        total[0] += run_tree(data, counters, fails, nontriv, samples, 6)
        counters['trees'] += 1

    hyp.run(st.data(), body, shard['examples'], shard['seed'], stats=counters)
    return {'evaluations': total[0], 'nontrivial': nontriv, 'samples': samples, 'counters': counters, 'failures': fails[:20]}


def replay(case):
    """Re-run the history, then the single recorded attempt."""
    h = Harness(case['prog'], case['cache'], {'keep_going': True})
    fails = []
    try:
        for s in case['steps']:
            h.apply(list(s))
        if not os.path.isfile(h.cache):
            return []
        spec = case['attempt']
        with open(h.cache, 'rb') as f:
            valid = f.read()
        stv = os.stat(h.cache)
        if spec.get('link'):
            make_link(h, spec)
        if spec['kind'] not in ('type', 'name', 'directory'):
            cls, blob = corrupt(valid, spec)
            with open(h.cache, 'wb') as f:
                f.write(blob)
            os.utime(h.cache, ns=(stv.st_atime_ns, stv.st_mtime_ns))
        pre = snapshot(h.R)
        lk_pre = link_state(h, spec) if spec.get('link') else None
        called = []
        cls, exc = attempt(h, spec, called)
        post = snapshot(h.R)
        lk_post = link_state(h, spec) if spec.get('link') else None
        if exc is not None and not called:
            if post != pre or lk_post != lk_pre:
                fails.append(failure('C15.side_effect', 'rejected %s call (%s) changed the tree' % (spec.get('api', 'build'), cls), case, repr(exc)))
            if h.sb.tmp_listing():
                fails.append(failure('C15.tempdir', 'rejected call left a temporary directory behind', case, ''))
        elif cls in MUST_REJECT:
            fails.append(failure('C15.not_refused', 'a %s call with a %s defect was not refused' % (spec.get('api'), cls), case, repr(exc)))
        elif exc is not None and called and spec['kind'] not in ('type', 'name', 'directory'):
            with open(h.cache, 'wb') as f:
                f.write(valid)
            os.utime(h.cache, ns=(stv.st_atime_ns, stv.st_mtime_ns))
            _c2, exc2 = attempt(h, dict(spec, kind='twin'), [])
            if exc2 is None or type(exc2) is not type(exc):
                fails.append(failure('C15.late_refusal', 'a %s call on a cache with a %s defect raised %s after user functions had been called' % (
                    spec.get('api'), cls, type(exc).__name__), case, repr(exc)))
        return fails
    finally:
        h.close()


def vacuity(counters, evaluations, tier):
    if counters['rejections_on_rich_tree'] * 5 < evaluations:
        return 'rejections on trees with outputs and created directories below 20%% (%d of %d)' % (counters['rejections_on_rich_tree'], evaluations)
    for k in ('truncate', 'bitflip', 'notjson', 'shape', 'software', 'version', 'type', 'name', 'directory', 'keys', 'ops'):
        if counters['attempt_' + k] == 0:
            return 'corruption class %s never generated' % k
    return None


LEVEL_TEXT = ('Randomised search over refusal causes (argument types, build name, directory, byte/text/JSON-level corruptions of a '
              'valid cache) on generated trees; every refusal is checked for bit-identical tree (incl. inode and the cache file), '
              'empty temp directory and absence of any user-function call.')
LEVEL_NOTE = ('Trusted: snapshot comparison and the corruptor. Coverage-guided byte fuzzing through gzip is ineffective (the '
              'decompressor rejects almost every mutation), so the structural corruptor carries the weight; see DESIGN.md section 8.')
