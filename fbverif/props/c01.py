"""C01  Cache transparency: an incremental build equals a from-scratch build."""
from .. import gen, histprop

ID = 'C01'
LEVEL = 'exploration'
CLAUSES = ('C01',)
TECHNIQUE = 'model-based differential testing: Hypothesis-generated programs x histories, real FileBuilder vs. from-scratch reference model'
RULE = ('Each case = a generated build program (1-5 build_file/subbuild functions forming a DAG, queries, data-dependent '
        'branches, caught/uncaught raises, missing writes, non-JSON returns) plus an interactively drawn history of 2-10 '
        'steps [build | build with new versions | failing build | external write/rm/mkdir/touch/swap | delete cache | clean] '
        'over a 20-path universe; in about a third of the cases (counter respelled_path_cases) the real run spells 60% of the paths it hands to the library '
        'differently (//, /./, x/../, trailing separator; same abspath); after every build the outcome and the complete tree are compared with the reference model. '
        'Non-trivial = the history contains a committed build on top of a valid cache in which >=1 function was served from '
        'the cache and >=1 was executed (partial hit), preceded by >=1 effective external mutation or version change; '
        'distinct = distinct scenario JSON.')
ASSUMPTIONS = [
    'generated programs respect the documented user obligations (prefix-free output paths, no symlinks, external changes only between builds)',
    'latitude L1 (listing order), L2 (directories that only hold the cache file are masked), L3 (size of a directory) - DESIGN.md section 3',
    'function results embed version tag, arguments and every observation; output contents embed a digest of the observations',
]
CFG = gen.cfg_with(max_root=6, max_funcs=6, fail_after_nested_p=0.18, alt_roots_p=0.3, kwargs_p=0.15)
CFG_BIG = gen.cfg_with(universe=gen.UNIV_BIG, max_root=7, max_funcs=6, max_body=5)


def cfg(tier):
    # the thorough tier alternates between the 16-path universe (dense collisions) and a 43-path one (deeper trees)
    return CFG


def program_strategy(cfg, cache):
    return gen.mixed_program(cfg, cache)


def drive(draw, h, cfg):
    h.c01_nontrivial = False
    names = list(h.prog_rel['funcs'])
    from hypothesis import strategies as st
    changed = False
    for _ in range(draw(st.sampled_from([0, 0, 0, 1, 2, 3]))):
        h.failures.extend(h.apply(histprop.draw_ext(draw, h, cfg['universe'], bias=False)))
    n = draw(st.integers(2, 10))
    for i in range(n):
        if h.dead:
            break
        c = draw(st.sampled_from(range(16))) if i else 0
        if c < 8:
            step = histprop.draw_build(draw, h, names)
            prev_versions = h.last.get('versions') if h.last else None
            h.failures.extend(h.apply(step))
            if h.last.get('committed') and h.last.get('has_cache') and h.last.get('partial') and \
                    (changed or (prev_versions is not None and prev_versions != step[1])):
                h.c01_nontrivial = True
            if h.last.get('committed'):
                changed = False
        elif c < 15:
            step = histprop.draw_ext(draw, h, cfg['universe'])
            before = h.stats['ext_effective']
            h.failures.extend(h.apply(step))
            changed = changed or h.stats['ext_effective'] > before
        else:
            h.failures.extend(h.apply(['clean']))


def nontrivial(h):
    return h.c01_nontrivial


def plan(tier, seed):
    shards = histprop.plan_shards(tier, seed, 16000, 400000)
    if tier == 'thorough':
        for sh in shards[1::2]:
            sh['big'] = True
    return shards


class _Big:
    """The same check over the larger universe (thorough tier, every other shard)."""
    CLAUSES = CLAUSES
    CFG = CFG_BIG
    drive = staticmethod(lambda draw, h, cfg: drive(draw, h, cfg))
    program_strategy = staticmethod(lambda cfg, cache: gen.mixed_program(cfg, cache))
    nontrivial = staticmethod(lambda h: h.c01_nontrivial)


def run_shard(shard):
    import sys
    if shard.get('big'):
        return histprop.run_history_shard(_Big, shard)
    return histprop.run_history_shard(sys.modules[__name__], shard)


def replay(case):
    from ..harness import run_scenario
    return run_scenario(case, clauses=CLAUSES)[0]


shrink_candidates = histprop.shrink_candidates


def vacuity(counters, evaluations, tier):
    if counters['builds_partial_hit'] * 50 < counters['builds']:
        return 'partial cache hits below 2%% of builds (%d of %d)' % (counters['builds_partial_hit'], counters['builds'])
    if counters['nontrivial_cases'] * 50 < evaluations:
        return 'non-trivial cases below 2%'
    return None


LEVEL_TEXT = ('Randomised differential exploration against an executable reference model of the documented from-scratch '
              'semantics: every build of every generated history is compared (return value / exception class, full tree with '
              'bytes). The property quantifies over programs x histories, so generated-input search with an oracle that '
              'computes the expected outcome for any scenario is the appropriate strength; it cannot show absence.')
LEVEL_NOTE = ('Trusted: fbverif/model.py (about 350 lines, no caching) and the DSL interpreter shared by both sides. Small-scope '
              'universe (16 paths, <=6 functions, <=13 steps; the thorough tier runs 25x the cases, half of them over a 43-path universe).')
