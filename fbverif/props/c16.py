"""C16  Cache persistence is faithful."""
import collections
import copy
import os

from hypothesis import strategies as st

from .. import env  # noqa: F401
from .. import hyp, valgen
from ..canon import roundtrip, strict_eq
from ..model import UserError
from ..runner import failure, small_hash
from ..sandbox import Sandbox, snapshot
from ..valuecodec import dec, enc

ID = 'C16'
LEVEL = 'exploration'
CLAUSES = ('C16',)
TECHNIQUE = 'generated operation forests with JSON return values and legal file names at every nesting position; write/read round trip observed through three consecutive builds, clean, a failing build and an injected cache-write failure'
RULE = ('Each case = an operation forest (1-6 build_file/subbuild nodes, depth <= 3, nodes that raise and are caught, nodes nested '
        'under raised parents) whose nodes return generated JSON values (unicode incl. non-BMP and lone surrogates, nesting, '
        '-0.0, inf, 1e308, ints > 2**64, keys needing escapes) and whose outputs/directories use names from a legal-name grammar '
        '(spaces, leading dots, non-ASCII, combining characters, newline, quotes, backslash, 200-char names, undecodable '
        'bytes). Build 1 records what every call returned; unchanged builds 2 and 3 must return type-strictly equal values '
        '(sign of zero, int vs float), re-run exactly the calls that raised, keep every output (inode+mtime); a failing build '
        'and a build whose cache write fails (injected OSError in gzip.open) must leave the cache file bytes+mtime untouched '
        '(or absent if there was none) and the outputs intact; clean must then remove exactly what was created. Non-trivial = '
        'a forest with a nested operation under a raised parent or a non-ASCII output path; distinct = distinct forest.')
ASSUMPTIONS = ['the cache-write fault is injected by replacing the gzip module global of file_builder.cache (no source change)',
               'NaN return values are excluded']

NAME_PARTS = ['a', 'b', 'c', 'out', 'x y', ' lead', 'trail ', '.hidden', '..x', 'é', 'ö́', '漢字', '\U0001F600', "q'uote", 'dq"uote',
              'back\\slash', 'new\nline', 'tab\t', '-dash', 'a.b.c', 'N' * 200, '%41', '&amp;', '{}', '[]', 'nul\u0001', '\udcff\udcfe', 'CON', '~']


class FailingGzip:
    """Proxy for the gzip module global of file_builder.cache: opening for writing fails while armed."""

    def __init__(self, real):
        self._real = real
        self.armed = False
        self.fired = 0

    def open(self, filename, mode='rb', *a, **k):
        if self.armed and 'w' in mode:
            self.fired += 1
            cb = getattr(self, 'during_failure', None)
            if cb is not None:
                # something else happens in the process at the moment the write fails (an independent build in another thread)
                armed, self.armed = self.armed, False
                try:
                    cb()
                finally:
                    self.armed = armed
            if self.armed == 'open':
                raise OSError(28, 'injected: no space left on device', filename)
            # the realistic case: the file is created/truncated, then writing fails part-way
            return _FailingWriter(self._real.open(filename, mode, *a, **k), filename)
        return self._real.open(filename, mode, *a, **k)

    def __getattr__(self, k):
        return getattr(self._real, k)


class _FailingWriter:
    def __init__(self, f, filename):
        self._f = f
        self._filename = filename

    def write(self, data):
        self._f.write(data[:len(data) // 2])
        raise OSError(28, 'injected: no space left on device', self._filename)

    def __enter__(self):
        return self

    def __exit__(self, *exc):
        self._f.close()
        return False

    def __getattr__(self, k):
        return getattr(self._f, k)


def nodes_of(forest):
    for n in forest:
        yield n
        yield from nodes_of(n['children'])


counters_ref = collections.Counter()


def run_case(case):
    import gzip
    import traceback
    import file_builder.cache as cache_mod
    from file_builder import FileBuilder, FileComparison
    forest = case['forest']
    fails = []
    sb = Sandbox()
    proxy = FailingGzip(gzip)
    cache_mod.gzip = proxy
    try:
        R = sb.R
        cache = os.path.join(R, case.get('cache', 'cache.gz'))
        with open(os.path.join(R, 'keep.txt'), 'w') as f:
            f.write('foreign')
        os.utime(os.path.join(R, 'keep.txt'), ns=(10 ** 18, 10 ** 18))
        initial = snapshot(R)
        log = []
        inside = {}

        def func_for(node):
            def fn(b, *args):
                log.append(node['id'])
                kids = []
                for ch in node['children']:
                    kids.append(call(b, ch))
                if node['kind'] == 'file':
                    with open(args[0], 'w') as f:
                        f.write('out %d' % node['id'])
                    os.utime(args[0], ns=(10 ** 18 + node['id'], 10 ** 18 + node['id']))
                if node['raises']:
                    raise UserError(str(node['id']))
                return {'own': dec(node['ret']), 'kids': kids}
            return fn

        def call(b, node):
            try:
                if node['kind'] == 'file':
                    p = os.path.join(R, *node['path'])
                    r = b.build_file_with_comparison(p, FileComparison[node['cmp']], node['fn'], func_for(node))
                else:
                    r = b.subbuild(node['fn'], func_for(node), node['id'])
                return ['ok', r]
            except UserError:
                return ['exc']

        def root(fail=False):
            def f(b):
                if os.path.isfile(cache):
                    with open(cache, 'rb') as fh:
                        inside['cache'] = fh.read()
                else:
                    inside['cache'] = None
                out = [call(b, n) for n in forest]
                if fail:
                    raise UserError('root')
                return out
            return f

        def cache_state():
            if os.path.isfile(cache):
                st_ = os.stat(cache)
                with open(cache, 'rb') as fh:
                    return (fh.read(), st_.st_mtime_ns)
            return None

        def expected_second(nodes, parent_executed, acc):
            for n in nodes:
                if parent_executed and n['raises']:
                    acc.append(n['id'])
                    expected_second(n['children'], True, acc)
            return acc

        # ---- optional: cache write fails on the very first build -> no cache file may be left
        if case.get('fail_first_write'):
            proxy.armed = case.get('fault', 'write')
            try:
                FileBuilder.build(cache, 'c16', root())
                fails.append(failure('C16.write_failure', 'build returned although writing the cache failed', case, ''))
            except OSError:
                pass
            proxy.armed = False
            if os.path.lexists(cache):
                fails.append(failure('C16.write_failure', 'a cache file exists after the first cache write failed', case, ''))
            post = snapshot(R)
            if {k: v[:3] for k, v in post.items()} != {k: v[:3] for k, v in initial.items()}:
                fails.append(failure('C16.write_failure', 'tree not restored after the first cache write failed', case,
                                     repr(sorted(set(post) ^ set(initial)))[:500]))
            if fails:
                return fails
        # ---- build 1
        del log[:]
        v1 = FileBuilder.build(cache, 'c16', root())
        if inside['cache'] is not None:
            fails.append(failure('C16.replace_time', 'a cache file existed during the first build', case, ''))
        all_ids = sorted(n['id'] for n in nodes_of(forest))
        c1 = cache_state()
        t1 = snapshot(R)
        # ---- builds 2 and 3: unchanged
        for k in (2, 3):
            del log[:]
            v = FileBuilder.build(cache, 'c16', root())
            if inside['cache'] != c1[0] and k == 2:
                fails.append(failure('C16.replace_time', 'the cache file was replaced before the root function returned', case, ''))
            if not strict_eq(v, v1):
                fails.append(failure('C16.value', 'value served from the cache differs from the value originally returned (build %d)' % k,
                                     case, 'first=%r\nserved=%r' % (v1, v)))
                return fails
            exp = sorted(expected_second(forest, True, []))
            if sorted(log) != exp:
                fails.append(failure('C16.markers', 'unchanged rebuild %d invoked %s, expected exactly the raised records %s' % (k, sorted(log), exp),
                                     case, ''))
                return fails
            t = snapshot(R)
            for p, x in t1.items():
                if p != cache and x[0] == 'f' and (p not in t or t[p][2:] != x[2:]):
                    fails.append(failure('C16.paths', 'an output was rewritten or lost in an unchanged rebuild', case, p))
                    return fails
        c3 = cache_state()
        # ---- failing build: cache untouched
        try:
            FileBuilder.build(cache, 'c16', root(fail=True))
        except UserError:
            pass
        if cache_state() != c3:
            fails.append(failure('C16.replace_time', 'a build whose root function raised changed the cache file', case, ''))
        # ---- cache write failure: old content back
        proxy.armed = case.get('fault', 'write')
        fired_before = proxy.fired
        if case.get('overlap'):
            # an independent build (own cache, own tree) runs to completion in another thread while this build - which has
            # moved its old cache file to its backup directory - is failing to write the new one
            import threading

            def other_build():
                d = os.path.join(sb.top, 'other')
                os.makedirs(d, exist_ok=True)

                def w(bb, path):
                    with open(path, 'w') as fh:
                        fh.write('other')

                def r2(bb):
                    bb.build_file(os.path.join(d, 'out', 'o.txt'), 'w', w)
                    return 1
                FileBuilder.build(os.path.join(d, 'cache.gz'), 'other', r2)

            def overlap():
                th = threading.Thread(target=other_build)
                th.start()
                th.join()
            proxy.during_failure = overlap
            counters_ref['overlapping_builds'] += 1
        try:
            FileBuilder.build(cache, 'c16', root())
            if proxy.fired > fired_before:
                fails.append(failure('C16.write_failure', 'build returned although writing the cache failed', case, ''))
        except OSError:
            pass
        proxy.armed = False
        proxy.during_failure = None
        if proxy.fired == fired_before:
            counters_ref['cache_write_not_attempted'] += 1      # an unchanged build may legitimately skip the rewrite
        if cache_state() != c3:
            fails.append(failure('C16.write_failure', 'cache file content/mtime not restored after the cache write failed', case, ''))
        t = snapshot(R)
        for p, x in t1.items():
            if p != cache and x[0] == 'f' and (p not in t or t[p][1:3] != x[1:3]):
                fails.append(failure('C16.write_failure', 'an output was lost or changed by the build whose cache write failed', case, p))
        if sb.tmp_listing():
            fails.append(failure('C16.write_failure', 'temporary directory left behind', case, ''))
        # ---- one more unchanged build still served from the same records
        del log[:]
        v = FileBuilder.build(cache, 'c16', root())
        if not strict_eq(v, v1) or sorted(log) != sorted(expected_second(forest, True, [])):
            fails.append(failure('C16.value', 'after the failed builds the cache no longer serves the recorded values', case, ''))
        # ---- clean removes exactly what was created (paths and created directories survived)
        FileBuilder.clean(cache, 'c16')
        post = snapshot(R)
        if {k: v_[:3] for k, v_ in post.items()} != {k: v_[:3] for k, v_ in initial.items()}:
            fails.append(failure('C16.paths', 'clean did not remove exactly the recorded outputs and created directories', case,
                                 repr(sorted(set(post) ^ set(initial)))[:600]))
        return fails
    except Exception as e:
        tb = traceback.format_exc()
        if 'file_builder/' not in tb or isinstance(e, RuntimeError) and 'harness:' in str(e):
            raise
        return [failure('C16.unexpected_exception', 'a valid build raised %s' % type(e).__name__, case, tb[-1500:])]
    finally:
        cache_mod.gzip = gzip
        sb.close()


@st.composite
def cases(draw):
    n = draw(st.integers(1, 6))
    used = []
    counter = [0]

    def fresh_path():
        for _ in range(8):
            depth = draw(st.integers(1, 3))
            p = [draw(st.sampled_from(NAME_PARTS)) for _ in range(depth)]
            if not any(p[:len(q)] == q[:len(p)] for q in used):
                used.append(p)
                return p
        p = ['uniq%d' % len(used)]
        used.append(p)
        return p

    def node(depth):
        counter[0] += 1
        nid = counter[0]
        kind = draw(st.sampled_from(['sub', 'file', 'file']))
        nd = {'id': nid, 'kind': kind, 'fn': draw(st.sampled_from(['f', 'g', 'é', 'fn %d' % nid])),
              'ret': enc(draw(valgen.sanitized_values(8))), 'raises': draw(st.sampled_from(range(5))) == 0,
              'cmp': draw(st.sampled_from(['METADATA', 'HASH'])), 'children': []}
        if kind == 'file':
            nd['path'] = fresh_path()
        if depth < 3:
            while counter[0] < n and draw(st.sampled_from(range(3))) == 0:
                nd['children'].append(node(depth + 1))
        return nd

    forest = []
    while counter[0] < n:
        forest.append(node(1))
    return {'forest': forest, 'cache': draw(st.sampled_from(['cache.gz', 'cache.gz', 'cä che/c.gz', '.c/d/cache'])),
            'fail_first_write': draw(st.sampled_from(range(5))) == 0, 'fault': draw(st.sampled_from(['write', 'write', 'open'])),
            'overlap': draw(st.sampled_from(range(3))) == 0}


def is_nontrivial(case):
    def rec(nodes, under_raised):
        for n in nodes:
            if under_raised:
                return True
            if n['kind'] == 'file' and any(ord(c) > 127 for part in n['path'] for c in part):
                return True
            if rec(n['children'], n['raises']):
                return True
        return False
    return rec(case['forest'], False)


def plan(tier, seed):
    per = 500 if tier == 'quick' else 12000
    return [{'seed': seed * 991 + i, 'examples': per, 'tier': tier} for i in range(16)]


def run_shard(shard):
    counters = collections.Counter()
    fails = []
    nontriv = set()
    samples = []
    n = [0]

    def body(case):
        n[0] += 1
        fs = run_case(copy.deepcopy(case))
        fails.extend(fs[:1])
        counters['nodes'] += len(list(nodes_of(case['forest'])))
        counters['raising_nodes'] += sum(1 for x in nodes_of(case['forest']) if x['raises'])
        counters['first_write_failures'] += bool(case.get('fail_first_write'))
        if is_nontrivial(case):
            counters['nontrivial'] += 1
            nontriv.add(small_hash(case))
            if len(samples) < 2:
                samples.append(case)

    counters_ref.clear()
    hyp.run(cases(), body, shard['examples'], shard['seed'], stats=counters)
    counters.update(counters_ref)
    return {'evaluations': n[0], 'nontrivial': nontriv, 'samples': samples, 'counters': counters, 'failures': fails}


def replay(case):
    return run_case(copy.deepcopy(case))


def shrink_candidates(case):
    forest = case['forest']

    def variants(nodes):
        for i in range(len(nodes)):
            yield nodes[:i] + nodes[i + 1:]
            yield nodes[:i] + nodes[i]['children'] + nodes[i + 1:]
            for v in variants(nodes[i]['children']):
                yield nodes[:i] + [dict(nodes[i], children=v)] + nodes[i + 1:]
            if nodes[i]['ret'] is not None:
                yield nodes[:i] + [dict(nodes[i], ret=None)] + nodes[i + 1:]
            if nodes[i].get('path') and nodes[i]['path'] != ['p%d' % nodes[i]['id']]:
                yield nodes[:i] + [dict(nodes[i], path=['p%d' % nodes[i]['id']])] + nodes[i + 1:]
    for v in variants(forest):
        if v:
            yield dict(case, forest=v)
    if case.get('cache') != 'cache.gz':
        yield dict(case, cache='cache.gz')
    if case.get('fail_first_write'):
        yield dict(case, fail_first_write=False)


def vacuity(counters, evaluations, tier):
    if counters['nontrivial'] * 5 < evaluations:
        return 'non-trivial forests below 20%'
    return None


LEVEL_TEXT = ('Randomised search over operation forests, return values and file names with a round-trip oracle (value returned in '
              'build N vs. value served in builds N+1, N+2, type-strict), invocation-log exactness for failure markers, '
              'clean for recorded paths/directories, and byte+mtime comparison of the cache file around failing builds and an '
              'injected write failure.')
LEVEL_NOTE = ('Trusted: strict_eq of fbverif/canon.py and the gzip proxy that injects the write failure. Values of <=8 leaves, '
              'forests of <=6 nodes; names are limited to what the file system of the sandbox (tmpfs) accepts.')
