"""C09  Thread-safety: concurrent use is equivalent to sequential use."""
import copy
import sys

from hypothesis import strategies as st

from .. import gen, histprop
from ..histprop import step

ID = 'C09'
LEVEL = 'exploration'
CLAUSES = ('C09',)
TECHNIQUE = 'deterministic cooperative scheduler (real threads, one runnable at a time, decision at every library file-system call and lock acquire) with exhaustive single preemptions, drawn double preemptions and seeded random schedules over generated parallel scenarios; oracle = sequential reference model + follow-up rebuild and clean'
RULE = ('Each evaluation = one (scenario, schedule) run. A scenario has 2-3 tasks run in threads on one builder; each task is a '
        'short block of build_file / subbuild / query statements that is independent of the others by construction (distinct '
        'keys; queries only on foreign inputs or on the task\'s own outputs) but shares new parent directories, stale '
        'directories of the previous build and failing functions with them; scenarios are embedded in histories (first build, '
        'rebuild on a valid cache after an input/output change, unchanged rebuild, clean). Schedules: run-to-completion, every '
        'single preemption position of the first parallel build (exhaustive per scenario), drawn pairs of preemptions, seeded '
        'random switching. Oracle: return values (tasks as a multiset), tree, query answers and invocation counts equal the '
        'sequential reference model; no deadlock (detector), no exception other than the scenario\'s own; the following '
        'unchanged rebuild re-executes only what a sequential build would; clean leaves exactly the foreign tree. Non-trivial = '
        'a run whose schedule actually switched threads at >=1 preemption between two library calls while >=2 tasks build '
        'files below a directory that did not exist before the build; distinct = distinct (scenario, schedule).')
ASSUMPTIONS = [
    'the harness owns the schedule only at the library\'s file-system calls and lock operations (module-global interposition); '
    'interleavings inside a run of pure-Python statements between two such points are not explored',
    'tasks are independent by construction, so any sequential order is a valid reference; the model uses task order',
]
ADOPT_ALL = True
INPUTS = ['in/a', 'in/b', 'in/flag0', 'in/flag1']
OUT_POOL = ['o/x', 'o/y', 'o/d/x', 'o/d/y', 'o/d/e/x', 'o/d/e/y', 'o/d/f/x', 'p/x', 'p/q/y', 'o/d/e/z']
# targets of functions that always fail: never visible to anybody at any time, so *other* tasks may query them
FAIL_POOL = ['o/d/e/fail1', 'o/r/fail2']
UNIV = gen.make_universe((), 0, tuple(INPUTS + OUT_POOL + FAIL_POOL))
CFG = gen.cfg_with(universe=UNIV, caches=['cache.gz', 'cache.gz', 'cd/cache.gz'])


def cfg(tier):
    return dict(CFG, line_budget=30 if tier == 'quick' else 120, sched_budget=40 if tier == 'quick' else 80)


@st.composite
def par_program(draw, cfg, cache):
    ntasks = draw(st.sampled_from([2, 2, 2, 3]))
    pool = list(OUT_POOL)
    # shared new parents are the point: bias to o/d/e/* and o/d/*
    funcs = {}
    counter = [0]

    def new_func(kind, body):
        name = 'f%d' % counter[0]
        counter[0] += 1
        funcs[name] = {'kind': kind, 'body': body}
        return name

    def file_body(own_path):
        body = []
        if draw(st.sampled_from(range(3))) == 0:
            body.append(['q', draw(st.sampled_from(['read_text', 'declare_read', 'exists', 'is_file'])), draw(st.sampled_from(INPUTS)),
                         draw(st.sampled_from(['METADATA', 'HASH']))])
        mode = draw(st.sampled_from(['ok', 'ok', 'ok', 'ok', 'raise_after', 'no_create', 'raise_before']))
        if mode in ('ok', 'raise_after'):
            body.append(['write'])
        if mode in ('raise_after', 'raise_before'):
            body.append(['raise'])
        if mode == 'ok' and pool and draw(st.sampled_from(range(4))) == 0:
            inner_path = pool.pop(draw(st.integers(0, len(pool) - 1)))
            inner = new_func('file', [['write']])
            body.insert(0, ['bf', inner_path, inner, [], 'METADATA', True])
        return body

    tasks = []
    for t in range(ntasks):
        block = []
        for _ in range(draw(st.integers(1, 3))):
            c = draw(st.sampled_from(['bf', 'bf', 'bf', 'sb', 'q']))
            if c == 'bf' and pool:
                # prefer paths that share a new directory with what is already taken
                path = pool.pop(draw(st.integers(0, min(len(pool) - 1, 5))))
                fn = new_func('file', file_body(path))
                stmt = ['bf', path, fn, [t], draw(st.sampled_from(['METADATA', 'HASH'])), draw(st.sampled_from([True, True, True, False]))]
                block.append(stmt)
                if draw(st.booleans()):
                    block.append(['q', draw(st.sampled_from(['is_file', 'read_binary', 'get_size', 'exists'])), path, 'HASH'])
            elif c == 'sb':
                body = [['q', draw(st.sampled_from(['read_text', 'exists', 'declare_read'])), draw(st.sampled_from(INPUTS)), 'METADATA']]
                if draw(st.sampled_from(range(5))) == 0:
                    body.append(['raise'])
                fn = new_func('sub', body)
                block.append(['sb', fn, [t, len(block)], True])
            else:
                block.append(['q', draw(st.sampled_from(['exists', 'is_file', 'read_text', 'list_dir'])), draw(st.sampled_from(INPUTS + ['in'])), 'METADATA'])
        if draw(st.sampled_from(range(4))) == 0 and block:
            flag = 'in/flag%d' % (t % 2)
            block = [['if', ['q', 'exists', flag, 'METADATA'], block, []]]
        tasks.append(block)
    if draw(st.booleans()):
        # one task builds a file whose function always fails; the other tasks watch its target: it must never be visible
        fp = draw(st.sampled_from(FAIL_POOL))
        fbody = draw(st.sampled_from([[['write'], ['raise']], [['raise']], [], [['write'], ['ret_nonjson']]]))
        ffn = new_func('file', fbody)
        owner = draw(st.integers(0, ntasks - 1))
        for t in range(ntasks):
            blk = tasks[t][0][2] if tasks[t] and tasks[t][0][0] == 'if' else tasks[t]
            if t == owner:
                blk.insert(draw(st.integers(0, len(blk))), ['bf', fp, ffn, [], draw(st.sampled_from(['METADATA', 'HASH'])), True])
            else:
                for _ in range(draw(st.integers(1, 3))):
                    blk.insert(draw(st.integers(0, len(blk))),
                               [draw(st.sampled_from(['qa', 'qa', 'qn'])),
                                draw(st.sampled_from(['is_file', 'exists', 'read_text', 'get_size', 'declare_read'])), fp, 'METADATA'])
    root = []
    if draw(st.sampled_from(range(4))) == 0 and pool:
        path = pool.pop(0)
        root.append(['bf', path, new_func('file', [['write']]), [], 'METADATA', True])
    root.append(['par', tasks])
    if draw(st.booleans()):
        root.append(['q', 'walk', 'o', 'METADATA'])
    return {'root': root, 'funcs': funcs, 'universe': list(cfg['universe'])}


def program_strategy(cfg, cache):
    return par_program(cfg, cache)


def sched_step(vers, spec, fail_at=None):
    return ['build', vers, fail_at, None, {'sched': spec}]


def shares_new_dir(h):
    mb = getattr(h, 'mb', None)
    if mb is None:
        return False
    users = {}
    for r in mb.forest:
        for n in r.walk():
            if n.kind == 'file':
                for d in n.created_dirs:
                    users.setdefault(d, set()).add(n.path)
    created = set(d for ds in users for d in [ds])
    files = [n.path for r in mb.forest for n in r.walk() if n.kind == 'file' and not n.setup_failed]
    for d in created:
        if sum(1 for f in files if f.startswith(d + '/')) >= 2:
            return True
    return False


def drive(draw, h, cfg):
    h.c09_nt = 0
    h.nt_keys = []
    for p in INPUTS[:2] + ([INPUTS[2]] if draw(st.booleans()) else []) + ([INPUTS[3]] if draw(st.booleans()) else []):
        step(h, ['write', p, draw(st.integers(0, 2))])
    vers = {}
    shape = draw(st.sampled_from(['first', 'first', 'rebuild', 'rebuild', 'stale']))
    if shape != 'first':
        step(h, sched_step(vers, {'preempt': []}))
        if shape == 'stale':
            step(h, [draw(st.sampled_from(['write', 'rm'])), draw(st.sampled_from(INPUTS[2:])), 1][:3])
        else:
            for _ in range(draw(st.integers(1, 4))):
                tgt = draw(st.sampled_from(INPUTS[:2] + OUT_POOL))
                step(h, draw(st.sampled_from([['touch', tgt], ['write', tgt, 1], ['write', tgt, 1], ['rm', tgt], ['write', 'o/d/foreign', 0]])))
            if draw(st.booleans()):
                vers = {'f0': 1, 'f1': 1, 'f2': 1, 'f3': 1}          # new versions: several outputs are rebuilt (moved aside) concurrently
    if h.dead:
        return
    # ---- the explored parallel build: count the decision points of the default schedule first
    # (in a third of the scenarios the root function raises after the parallel part: rollback after concurrent work)
    fail_at = 0 if draw(st.sampled_from(range(3))) == 0 else None
    h.apply(['save'])
    step(h, sched_step(vers, {'preempt': []}, fail_at))
    if h.dead:
        return
    runs = h.rctx.extra.get('sched_runs') or [{'decisions': 0}]
    N = runs[0]['decisions']
    h.stats['c09_scenarios'] += 1
    h.stats['c09_decision_points'] += N
    follow_up(draw, h, vers)
    specs = []
    budget = cfg.get('sched_budget', 40)
    singles = list(range(1, N + 1))
    if len(singles) > budget:
        singles = sorted(draw(st.lists(st.sampled_from(singles), min_size=budget, max_size=budget, unique=True)))
    else:
        h.stats['c09_single_preemption_exhaustive'] += 1
    for i in singles:
        specs.append({'preempt': [[i, 0]]})
    for _ in range(min(budget // 2, 12)):
        i = draw(st.integers(1, max(1, N)))
        j = draw(st.integers(1, max(1, N + 10)))
        specs.append({'preempt': [[i, draw(st.integers(0, 1))], [i + j, draw(st.integers(0, 1))]]})
    for _ in range(6):
        specs.append({'mode': 'random', 'seed': draw(st.integers(0, 10 ** 6)), 'p': draw(st.sampled_from([0.05, 0.15, 0.4])),
                      'first': draw(st.integers(0, 2))})
    # ---- line granularity: every executed line of library code is a decision point (sampled positions)
    h.apply(['restore'])
    step(h, sched_step(vers, {'preempt': [], 'lines': True}, fail_at))
    if h.dead:
        return
    NL = ((h.rctx.extra.get('sched_runs') or [{'decisions': 0}])[0])['decisions']
    h.stats['c09_line_decision_points'] += NL
    lb = cfg.get('line_budget', 30)
    if NL > 0:
        for i in sorted(draw(st.lists(st.integers(1, NL), min_size=min(lb, NL), max_size=min(lb, NL), unique=True))):
            specs.append({'preempt': [[i, 0]], 'lines': True})
        for _ in range(lb // 3):
            i = draw(st.integers(1, NL))
            specs.append({'preempt': [[i, 0], [i + draw(st.integers(1, 60)), 0]], 'lines': True})
    for spec in specs:
        if h.dead:
            return
        h.apply(['restore'])
        step(h, sched_step(vers, spec, fail_at))
        if spec.get('lines'):
            h.stats['c09_line_level_runs'] += 1
        h.stats['c09_schedule_runs'] += 1
        sr = (h.rctx.extra.get('sched_runs') or [{}])[0]
        if sr.get('switches', 0) > 0:
            h.stats['c09_runs_with_switch'] += 1
            if shares_new_dir(h):
                h.c09_nt += 1
                h.nt_keys.append(['sched', len(h.steps), spec])
                h.stats['c09_switch_while_sharing_new_dir'] += 1
        follow_up(draw, h, vers)


def follow_up(draw, h, vers):
    """What the next build and clean subsequently do."""
    if h.dead:
        return
    if h.last.get('committed'):
        step(h, sched_step(vers, {'preempt': []}))          # unchanged rebuild: C05 strict rule applies
    if not h.dead:
        step(h, ['clean'])


def adopt(h, f):
    c = f['clause']
    if c.startswith('C09'):
        return None
    return 'C09.' + c.replace('.', '_')


def nontrivial(h):
    return h.c09_nt > 0


def plan(tier, seed):
    return histprop.plan_shards(tier, seed, 320, 12000)


def run_shard(shard):
    res = histprop.run_history_shard(sys.modules[__name__], shard)
    res['counters']['scenarios'] = res['evaluations']
    res['evaluations'] = int(res['counters'].get('c09_schedule_runs', 0))
    return res


def replay(case):
    from ..harness import run_scenario
    return run_scenario(case, clauses=CLAUSES, adopt=adopt)[0]


def shrink_candidates(case):
    steps = case['steps']
    idx = [i for i, s in enumerate(steps) if s[0] == 'restore']
    for i in idx:
        j = i + 1
        while j < len(steps) and steps[j][0] != 'restore':
            j += 1
        c = dict(case)
        c['steps'] = steps[:i] + steps[j:]
        yield c
    # a restore-delimited group that is the only one left can replace the counting run
    if len(idx) == 1 and 'save' in [s[0] for s in steps]:
        k = [s[0] for s in steps].index('save')
        c = dict(case)
        c['steps'] = steps[:k] + steps[idx[0] + 1:]
        yield c
    yield from histprop.shrink_candidates(case)


def vacuity(counters, evaluations, tier):
    if counters['c09_switch_while_sharing_new_dir'] * 20 < counters['c09_schedule_runs']:
        return 'runs with a landed preemption while tasks share a new directory below 5%% (%d of %d)' % (
            counters['c09_switch_while_sharing_new_dir'], counters['c09_schedule_runs'])
    return None


LEVEL_TEXT = ('Systematic schedule exploration under a preemption bound: the harness serialises real threads and takes a decision '
              'at every file-system call and lock acquire of the library, enumerating all single preemptions of each generated '
              'parallel scenario and sampling double preemptions and random schedules; each run is compared with the sequential '
              'reference model and followed by an unchanged rebuild and clean. Not a proof: bounded preemptions, generated scenarios.')
LEVEL_NOTE = ('Assumes atomicity of pure-Python stretches between two interposed calls (no decision point there). Deadlock freedom is '
              '"the detector never fired on any explored schedule", not liveness. Free-running stress is not part of the verdict.')
