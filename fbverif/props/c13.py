"""C13  Comparison modes: HASH tracks content, METADATA tracks size+mtime."""
import os

from hypothesis import strategies as st

from .. import gen, histprop
from ..histprop import step

ID = 'C13'
LEVEL = 'exploration'
CLAUSES = ('C13',)
TECHNIQUE = 'exact (content changed?, metadata changed?) edits realised with os.utime(ns=...) over generated read/build programs; two-sided decision oracle on the invocation log from reference-model comparison answers'
RULE = ('Each case = forest-shaped program whose functions read inputs (read_text/read_binary/declare_read), build outputs and '
        'read outputs back with METADATA or HASH comparison, at top level and nested in reusable subtrees, over a history '
        'in which one observed input or output receives one of the four edits: content+metadata changed (rewrite), content '
        'changed with size and mtime_ns preserved, pure timestamp change (same bytes, new mtime), nothing. Oracle from the '
        'reference model\'s recorded comparison answers (sha256 for HASH; (size, mtime_ns) for METADATA; recorded result of '
        'each output): a call must be re-executed iff an answer in its recorded subtree changed - missed change (served '
        'although a HASH/METADATA answer changed) and needless re-execution (e.g. HASH after a pure touch) are both '
        'violations. After a metadata-preserving content edit the from-scratch content comparison is switched off (the hit '
        'is the specified behaviour) and only decisions are judged. Non-trivial = a case with an effective edit in which '
        'exactly one of (content, metadata) changed on a path the last committed build observed or produced; distinct = '
        'distinct scenario JSON.')
ASSUMPTIONS = [
    'timestamps are set explicitly with os.utime(ns=...): no dependence on the wall clock or on timestamp granularity',
    'METADATA means (st_size, st_mtime_ns) as documented by the recorded comparison result',
]
CFG = gen.cfg_with(probe_w=0, max_funcs=5, raise_w=2, nonjson_p=0.0, nowrite_p=0.0, catch_p=0.95, root_catch_p=0.97,
                   query_kinds=['read_text', 'read_binary', 'declare_read', 'read_binary', 'declare_read', 'exists', 'get_size'],
                   chain_p=0.4, tree_queries=3, around_p=0.3, caches=['cache.gz'])
ADOPT = {'C05.unjustified': 'C13.needless_reexecution', 'C05.unchanged_rebuild': 'C13.needless_reexecution',
         'C05.rewrite': 'C13.needless_reexecution', 'C01.outcome': 'C13.result', 'C01.tree': 'C13.result'}


def program_strategy(cfg, cache):
    return gen.tree_program(cfg, cache)


def observed_files(h):
    lc = h.last_committed
    if not lc:
        return []
    out = []
    for p in sorted(lc['observed'] | lc['outputs']):
        if p.startswith(h.R + '/') and not h.protected(p):
            if os.path.islink(p):
                p = os.path.realpath(p)          # edits go to the file the link points to
                if not p.startswith(h.R + '/'):
                    continue
            out.append(h.relp(p))
    return out


def drive(draw, h, cfg):
    names = list(h.prog_rel['funcs'])
    univ = cfg['universe']
    # inputs to read
    for _ in range(draw(st.integers(1, 4))):
        step(h, ['write', draw(st.sampled_from(univ)), draw(st.integers(0, 2))])
    # some inputs are reached through a symbolic link to a regular file (the library follows links)
    # (only between paths that no build_file call of the program targets or has below/above it: a link whose target a build
    # replaces would dangle, which is outside the small model of links used here)
    from ..dsl import iter_stmts
    targets = set()
    for blk in [h.prog_rel['root']] + [f['body'] for f in h.prog_rel['funcs'].values()]:
        for s_ in iter_stmts(blk):
            if s_[0] == 'bf':
                targets.add(s_[1])

    def clear(u):
        return not any(u == t or u.startswith(t + '/') or t.startswith(u + '/') for t in targets)
    files = [u for u in univ if clear(u) and os.path.isfile(h.sb.ap(u))]
    spots = [u for u in univ if clear(u)]
    for _ in range(draw(st.sampled_from([0, 0, 1, 2]))):
        if files and spots:
            step(h, ['symlink', draw(st.sampled_from(spots)), draw(st.sampled_from(files))])
            if h.stats['ext_effective']:
                h.stats['c13_symlinks'] += 1
    # a directory below which the program builds outputs is a symbolic link to a directory elsewhere
    if draw(st.sampled_from(range(5))) == 0:
        anc = sorted({'/'.join(t.split('/')[:i]) for t in targets for i in range(1, len(t.split('/')))})
        anc = [a for a in anc if not os.path.lexists(h.sb.ap(a)) and not h.protected(h.sb.ap(a))]
        if anc:
            step(h, ['symlinkdir', draw(st.sampled_from(anc))])
            h.stats['c13_symlinked_output_dirs'] += 1
    step(h, ['build', {}, None])
    h.c13_edits = 0
    for _ in range(draw(st.integers(1, 4))):
        if h.dead:
            break
        of = observed_files(h)
        if of:
            p = draw(st.sampled_from(of))
            kind = draw(st.sampled_from(['rewrite_keep_meta', 'rewrite_keep_meta', 'rewrite_same', 'rewrite_same', 'touch',
                                         'write', 'none', 'rm']))
            before = h.stats['ext_effective']
            if kind == 'write':
                step(h, ['write', p, draw(st.integers(0, 2))])
            elif kind == 'rewrite_keep_meta':
                step(h, ['rewrite_keep_meta', p, draw(st.integers(0, 3))])
            elif kind != 'none':
                step(h, [kind, p])
            if h.stats['ext_effective'] > before and kind in ('rewrite_keep_meta', 'rewrite_same', 'touch'):
                h.c13_edits += 1
                h.stats['c13_edit_' + kind] += 1
        step(h, ['build', {}, None])
        if gen.chance(draw, 0.3) and not h.dead:
            step(h, ['build', {}, None])


def adopt(h, f):
    if f['clause'] not in ADOPT:
        return None
    if f['clause'].startswith('C01') and h.stale_allowed:
        return None
    return ADOPT[f['clause']]


def nontrivial(h):
    return getattr(h, 'c13_edits', 0) > 0


histprop.install(globals(), 12000, 300000)


def vacuity(counters, evaluations, tier):
    for k in ('c13_edit_rewrite_keep_meta', 'c13_edit_rewrite_same', 'c13_edit_touch'):
        if counters[k] * 20 < evaluations:
            return 'too few effective %s edits (%d for %d cases)' % (k, counters[k], evaluations)
    return None


LEVEL_TEXT = ('Randomised exploration with exactly realised edits and an exact, two-sided oracle on re-execution decisions; the '
              'four (content, metadata) combinations are generated for input reads, output integrity and output read-back, '
              'top-level and nested.')
LEVEL_NOTE = ('Trusted: the reference model\'s comparison answers (sha256 / size+mtime_ns of the real files) and the decision '
              'oracle in fbverif/harness.py. Files are a few dozen bytes; multi-block hashing is not exercised.')
