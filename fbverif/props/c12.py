"""C12  clean removes exactly what the last build created."""
from hypothesis import strategies as st

from .. import gen, histprop
from ..histprop import step

ID = 'C12'
LEVEL = 'exploration'
CLAUSES = ('C12',)
TECHNIQUE = 'stateful history generation with clean at every position; oracle = reference-model tree, idempotence and first-build equivalence'
RULE = ('Each case = generated program + history with clean inserted after commits, rollbacks, external tampering, a previous '
        'clean and cache deletion (also clean;clean and clean;build). After clean the tree must equal the model (outputs of '
        'the last committed build and the cache file gone, created directories removed deepest-first while empty, everything '
        'else bit-identical incl. mtime), without a cache file clean must change nothing, a second clean changes nothing, and '
        'a build after clean must call every function (full invocation log) with the outcome/tree of a first build. '
        'Non-trivial = a clean on a valid cache after >=2 committed builds whose recorded created-directory sets differ; '
        'distinct = distinct scenario JSON.')
ASSUMPTIONS = ['the model\'s record of outputs and created directories of the last committed build (cross-checked against the real tree by C01 on every commit)']
CFG = gen.cfg_with(probe_w=1, max_root=5, alt_roots_p=0.3)


def program_strategy(cfg, cache):
    return gen.mixed_program(cfg, cache)


def drive(draw, h, cfg):
    names = list(h.prog_rel['funcs'])
    univ = cfg['universe']
    for i in range(draw(st.integers(3, 11))):
        if h.dead:
            break
        c = draw(st.sampled_from(range(20))) if i else 0
        if c < 8:
            step(h, histprop.draw_build(draw, h, names, fail_p=0.2))
        elif c < 14:
            lc = getattr(h, 'last_committed', None)
            made = sorted(h.relp(d) for d in (lc or {}).get('created', ()) if d.startswith(h.R + '/') and not h.protected(d))
            if made and draw(st.sampled_from(range(4))) == 0:
                # the user deletes a directory the build created (with everything in it) and makes one of his own there:
                # the next build produces the same records, but the directory is no longer the build's
                d = draw(st.sampled_from(made))
                step(h, ['rm', d])
                if not h.dead:
                    step(h, ['mkdir', d])
                h.stats['c12_created_dir_replaced_by_user_dir'] += 1
            else:
                step(h, histprop.draw_ext(draw, h, univ))
        else:
            step(h, ['clean'])
            k = draw(st.sampled_from(['', '', 'clean', 'build', 'build']))
            if k == 'clean' and not h.dead:
                step(h, ['clean'])
            elif k == 'build' and not h.dead:
                step(h, histprop.draw_build(draw, h, names, fail_p=0.0))


def nontrivial(h):
    return 'c12_nontrivial' in h.flags


histprop.install(globals(), 12000, 300000)


def vacuity(counters, evaluations, tier):
    if counters['cleans_with_cache'] < evaluations // 2:
        return 'too few cleans on a valid cache'
    if counters['nontrivial_cases'] * 50 < evaluations:
        return 'non-trivial cases below 2%% (%d of %d)' % (counters['nontrivial_cases'], evaluations)
    return None


LEVEL_TEXT = ('Randomised exploration of histories with clean at every position against the reference model; idempotence and '
              'first-build equivalence are checked by construction of the histories.')
LEVEL_NOTE = 'Trusted: the reference model\'s bookkeeping of outputs and created directories. Small-scope universe of 20 paths.'
