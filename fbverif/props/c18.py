"""C18  JSON helper laws: sanitize is a JSON round trip, is_equal matches the hashable form.

Part A (exhaustive, finite): every value with <= 3 nodes over a colliding atom set, all ordered
pairs of them, transitivity over all triples of the smallest values.
Part B (Hypothesis): deeper recursive values, pairs built by equality-preserving / near-miss edits,
subclasses of the JSON base types, non-JSON atoms planted at a random position.
Oracles: json.loads(json.dumps(v)) with type-strict equality; the independent canonical form
``canon`` (exact rationals, tagged booleans, stringified keys).
"""
import copy
import itertools
import json

from .. import env  # noqa: F401  (sys.path)
from .. import hyp
from ..canon import canon, mutable_ids, roundtrip, strict_eq
from ..runner import failure, small_hash
from ..valuecodec import BAD_NAMES, bad_atom, dec, enc
from .. import valgen

from hypothesis import strategies as st

ID = 'C18'
LEVEL = 'exploration'
TECHNIQUE = 'bounded-exhaustive enumeration + Hypothesis property tests against json round trip and an independent canonical form'
RULE = ('Part A enumerates every value of <= 3 nodes over the atoms {None,False,True,0,1,2,1.0,-0.0,"","0","a",2**63,inf,'
        'float(2**63)} (lists, tuples, dicts with colliding keys), every ordered pair of the sanitized ones for '
        'to_hashable/is_equal/canon agreement, every ordered pair incl. tuples for is_equal vs canon + symmetry, and every '
        'triple of the smallest values for transitivity; part B draws recursive values to ~12 leaves with Hypothesis and '
        'edits them. A case is non-trivial when it is a pair that is JSON-equal but not type-identical, or ==-equal in '
        'Python but JSON-different, or a single value whose sanitized form differs type-strictly from the input '
        '(tuple, non-string key, subclass) or a non-JSON value that must be rejected; distinct = distinct encoded case.')
ASSUMPTIONS = [
    'is_equal is exercised on sanitized values that may contain tuples, to_hashable on sanitized values only (their documented domains)',
    'NaN is excluded (property text)',
    'dict results are compared ignoring key order',
]


def JU():
    from file_builder.json_util import JsonUtil
    return JsonUtil


ATOMS = [None, False, True, 0, 1, 2, 1.0, -0.0, '', '0', 'a', 2 ** 63, float('inf'), float(2 ** 63)]
SKEYS = ['', '0', 'a', '1']
RKEYS = SKEYS + [0, 1, True, None, 1.0, float('inf')]


def enum_values(keys, tuples):
    """All values with <= 3 nodes (atom or container = 1 node)."""
    s1 = list(ATOMS) + [[], {}] + ([()] if tuples else [])
    s2 = []
    for x in s1:
        s2.append([x])
        if tuples:
            s2.append((x,))
        for k in keys:
            s2.append({k: x})
    s3 = []
    for x in s1:
        for y in s1:
            s3.append([x, y])
            if tuples:
                s3.append((x, y))
    for k1, k2 in itertools.permutations(keys, 2):
        # both key orders: insertion order must not matter
        if repr(k1) < repr(k2) or tuples:
            for x in s1[:8]:
                for y in s1[:8]:
                    s3.append({k1: x, k2: y})
    for v in s2:
        s3.append([v])
        if tuples:
            s3.append((v,))
        for k in keys[:2]:
            s3.append({k: v})
    return s1, s2, s3


# --------------------------------------------------------------------------------------------------
# single-value laws
# --------------------------------------------------------------------------------------------------

def check_sanitize(v, fails, counters, nontriv):
    J = JU()
    before = copy.deepcopy(v)
    try:
        expected = roundtrip(v)
    except (TypeError, ValueError) as e:
        # not JSON representable: must be rejected with TypeError
        try:
            got = J.sanitize(v)
        except TypeError:
            counters['rejected_ok'] += 1
            nontriv.add(small_hash(['rej', enc(v)]))
            return
        except Exception as e2:
            fails.append(failure('C18.reject', 'sanitize raises %s instead of TypeError' % type(e2).__name__,
                                 {'kind': 'value', 'v': enc(v)}, 'json.dumps: %r; sanitize: %r' % (e, e2)))
            return
        fails.append(failure('C18.reject', 'sanitize accepts a non-JSON value',
                             {'kind': 'value', 'v': enc(v)}, 'json.dumps raised %r, sanitize returned %r' % (e, got)))
        return
    try:
        got = J.sanitize(v)
    except Exception as e:
        fails.append(failure('C18.sanitize_roundtrip', 'sanitize raises %s on a JSON value' % type(e).__name__,
                             {'kind': 'value', 'v': enc(v)}, repr(e)))
        return
    counters['sanitized'] += 1
    if not strict_eq(got, expected):
        fails.append(failure('C18.sanitize_roundtrip', 'sanitize(v) != json round trip',
                             {'kind': 'value', 'v': enc(v)}, 'sanitize=%r roundtrip=%r' % (got, expected)))
        return
    if not strict_eq(v, before):
        fails.append(failure('C18.sanitize_pure', 'sanitize mutated its argument', {'kind': 'value', 'v': enc(before)},
                             'after=%r' % (v,)))
    again = J.sanitize(got)
    if not strict_eq(again, got):
        fails.append(failure('C18.sanitize_idempotent', 'sanitize not idempotent', {'kind': 'value', 'v': enc(v)},
                             'once=%r twice=%r' % (got, again)))
    shared = mutable_ids(v) & mutable_ids(got)
    if shared:
        fails.append(failure('C18.sanitize_fresh', 'sanitize result shares a mutable object with its input',
                             {'kind': 'value', 'v': enc(v)}, 'result=%r' % (got,)))
    if mutable_ids(got) & mutable_ids(again) and got is not again:
        # a second sanitize of a sanitized value must not alias it either
        fails.append(failure('C18.sanitize_fresh', 'sanitize(sanitized) aliases its input',
                             {'kind': 'value', 'v': enc(v)}, 'result=%r' % (got,)))
    if not strict_eq(got, v):
        nontriv.add(small_hash(['san', enc(v)]))
    # reflexivity + hashability on the sanitized form
    if not J.is_equal(got, got):
        fails.append(failure('C18.reflexive', 'is_equal(v, v) is False', {'kind': 'value', 'v': enc(v)}, repr(got)))
    try:
        hash(J.to_hashable(got))
    except Exception as e:
        fails.append(failure('C18.hashable', 'to_hashable result not hashable', {'kind': 'value', 'v': enc(v)}, repr(e)))


def check_pair(a, b, fails, counters, nontriv, with_hashable):
    J = JU()
    ce = canon(a) == canon(b)
    ie = J.is_equal(a, b)
    case = {'kind': 'pair', 'a': enc(a), 'b': enc(b), 'hashable': with_hashable}
    if ie != ce:
        fails.append(failure('C18.is_equal_vs_canon', 'is_equal=%s but JSON-equal=%s' % (ie, ce), case,
                             'a=%r b=%r' % (a, b)))
    if J.is_equal(b, a) != ie:
        fails.append(failure('C18.symmetric', 'is_equal not symmetric', case, 'a=%r b=%r' % (a, b)))
    if with_hashable:
        he = J.to_hashable(a) == J.to_hashable(b)
        if he != ie:
            fails.append(failure('C18.hashable_iff_equal', 'to_hashable equal=%s but is_equal=%s' % (he, ie), case,
                                 'a=%r b=%r ha=%r hb=%r' % (a, b, J.to_hashable(a), J.to_hashable(b))))
        if he and hash(J.to_hashable(a)) != hash(J.to_hashable(b)):
            fails.append(failure('C18.hashable_iff_equal', 'equal hashables with different hash()', case, ''))
    counters['pairs'] += 1
    if ce:
        counters['pairs_equal'] += 1
    try:
        pyeq = (a == b)
    except Exception:
        pyeq = False
    if (ce and not strict_eq(a, b)) or (pyeq and not ce):
        counters['pairs_nontrivial'] += 1
        nontriv.add(small_hash(['pair', enc(a), enc(b)]))


# --------------------------------------------------------------------------------------------------
# shards
# --------------------------------------------------------------------------------------------------

NSH = 16


def plan(tier, seed):
    shards = []
    for i in range(NSH):
        shards.append({'part': 'A', 'i': i, 'n': NSH, 'tier': tier})
    nb = 16
    per = 400 if tier == 'quick' else 6000
    for i in range(nb):
        shards.append({'part': 'B', 'seed': seed * 1000 + i, 'examples': per, 'tier': tier})
    return shards


def run_shard(shard):
    import collections
    counters = collections.Counter()
    fails = []
    nontriv = set()
    samples = []
    evaluations = 0
    J = JU()
    if shard['part'] == 'A':
        i, n = shard['i'], shard['n']
        # (1) sanitize laws over raw values (tuples, non-string keys)
        r1, r2, r3 = enum_values(RKEYS, True)
        raw = r1 + r2 + r3
        for idx, v in enumerate(raw):
            if idx % n == i:
                check_sanitize(v, fails, counters, nontriv)
                evaluations += 1
        # non-JSON atoms at each position of the small shapes
        if i == 0:
            for name in BAD_NAMES:
                for shape in (lambda x: x, lambda x: [x], lambda x: (x,), lambda x: {'a': x}, lambda x: [0, [x]],
                              lambda x: {'a': {'b': x}}, lambda x: [[], x], lambda x: {'a': 1, 'b': x}):
                    check_sanitize(shape(bad_atom(name)), fails, counters, nontriv)
                    evaluations += 1
            for badkey in ((1, 2), b'k', frozenset()):
                check_sanitize({badkey: 1}, fails, counters, nontriv)
                check_sanitize([{badkey: 1}], fails, counters, nontriv)
                evaluations += 2
        # (2) pairs over sanitized values (with to_hashable) and over values with tuples (is_equal only)
        s1, s2, s3 = enum_values(SKEYS, False)
        S = s1 + s2 + s3
        t1, t2, t3 = enum_values(SKEYS, True)
        T = t1 + t2 + t3
        if shard['tier'] == 'quick':
            T = t1 + t2 + t3[::7]
        for idx, a in enumerate(S):
            if idx % n != i:
                continue
            for b in S:
                check_pair(a, b, fails, counters, nontriv, True)
            evaluations += len(S)
        for idx, a in enumerate(T):
            if idx % n != i:
                continue
            if type(a) is tuple or any(type(e) is tuple for e in (a if isinstance(a, (list, tuple)) else
                                                                  a.values() if isinstance(a, dict) else ())):
                for b in T:
                    check_pair(a, b, fails, counters, nontriv, False)
                evaluations += len(T)
        # (3) transitivity over all triples of the smallest values (size <= 2, incl. tuples)
        U = t1 + t2
        eq = [[J.is_equal(a, b) for b in U] for a in U]
        for ai in range(len(U)):
            if ai % n != i:
                continue
            for bi in range(len(U)):
                if not eq[ai][bi]:
                    continue
                for ci in range(len(U)):
                    if eq[bi][ci] and not eq[ai][ci]:
                        fails.append(failure('C18.transitive', 'is_equal not transitive',
                                             {'kind': 'triple', 'a': enc(U[ai]), 'b': enc(U[bi]), 'c': enc(U[ci])},
                                             '%r ~ %r ~ %r' % (U[ai], U[bi], U[ci])))
            evaluations += len(U) * len(U)
            counters['triples'] += len(U) * len(U)
        if i == 0:
            samples = [{'part': 'A', 'value': enc(raw[37])}, {'part': 'A', 'pair': [enc(S[20]), enc(S[300])]},
                       {'part': 'A', 'sizes': {'raw_values': len(raw), 'sanitized': len(S), 'with_tuples': len(T),
                                               'triple_base': len(U)}}]
        return {'evaluations': evaluations, 'nontrivial': nontriv, 'samples': samples, 'counters': counters,
                'failures': fails, 'exhaustive': True}

    # ---- part B -------------------------------------------------------------------------------
    @st.composite
    def case(draw):
        kind = draw(st.sampled_from(['value', 'value', 'pair_s', 'pair_t', 'bad', 'triple']))
        if kind == 'value':
            return ('value', draw(valgen.raw_values(12)))
        if kind == 'pair_s':
            a = draw(valgen.sanitized_values(10))
            b, names = draw(valgen.edited(a, allow_tuples=False, allow_raw_keys=False))
            return ('pair_s', a, b, names)
        if kind == 'pair_t':
            a = draw(valgen.sanitized_with_tuples(10))
            b, names = draw(valgen.edited(a, allow_tuples=True, allow_raw_keys=False))
            return ('pair_t', a, b, names)
        if kind == 'triple':
            a = draw(valgen.sanitized_with_tuples(6))
            b, _ = draw(valgen.edited(a, allow_tuples=True, allow_raw_keys=False, max_edits=1))
            c, _ = draw(valgen.edited(b, allow_tuples=True, allow_raw_keys=False, max_edits=1))
            return ('triple', a, b, c)
        v = draw(valgen.raw_values(6, subclasses=False))
        name = draw(st.sampled_from(BAD_NAMES))
        where = draw(st.sampled_from(['root', 'list', 'dictval', 'deep']))
        b = bad_atom(name)
        w = {'root': b, 'list': [v, b], 'dictval': {'k': b, 'v': v}, 'deep': [{'a': (v, [b])}]}[where]
        return ('value', w)

    def body(c):
        nonlocal evaluations
        evaluations += 1
        if c[0] == 'value':
            check_sanitize(c[1], fails, counters, nontriv)
            if len(samples) < 2:
                samples.append({'part': 'B', 'value': enc(c[1])})
        elif c[0] in ('pair_s', 'pair_t'):
            check_pair(c[1], c[2], fails, counters, nontriv, c[0] == 'pair_s')
            if len(samples) < 4 and c[3]:
                samples.append({'part': 'B', 'pair': [enc(c[1]), enc(c[2])], 'edits': c[3]})
        else:
            a, b, cc = c[1], c[2], c[3]
            if J.is_equal(a, b) and J.is_equal(b, cc) and not J.is_equal(a, cc):
                fails.append(failure('C18.transitive', 'is_equal not transitive',
                                     {'kind': 'triple', 'a': enc(a), 'b': enc(b), 'c': enc(cc)}, ''))
            counters['triples'] += 1

    hyp.run(case(), body, shard['examples'], shard['seed'])
    return {'evaluations': evaluations, 'nontrivial': nontriv, 'samples': samples, 'counters': counters,
            'failures': fails}


def replay(case):
    import collections
    fails = []
    c = collections.Counter()
    nt = set()
    if case['kind'] == 'value':
        check_sanitize(dec(case['v']), fails, c, nt)
    elif case['kind'] == 'pair':
        check_pair(dec(case['a']), dec(case['b']), fails, c, nt, case.get('hashable', False))
    else:
        J = JU()
        a, b, cc = dec(case['a']), dec(case['b']), dec(case['c'])
        if J.is_equal(a, b) and J.is_equal(b, cc) and not J.is_equal(a, cc):
            fails.append(failure('C18.transitive', 'is_equal not transitive', case, ''))
    return fails


def vacuity(counters, evaluations, tier):
    if counters['pairs_nontrivial'] < 1000:
        return 'too few non-trivial pairs: %d' % counters['pairs_nontrivial']
    if counters['rejected_ok'] < 20:
        return 'too few rejected non-JSON values'
    return None

LEVEL_TEXT = ('Bounded-exhaustive plus randomized search: all values of <= 3 nodes over a colliding atom set and all their '
              'pairs/triples are enumerated completely, deeper values are sampled with Hypothesis; every law of the '
              'property is an executable oracle against json.loads(json.dumps(.)) and an independent canonical form. '
              'Pure functions over a recursive value domain: small-scope exhaustiveness is the strongest generated-input '
              'evidence available.')
LEVEL_NOTE = ('Trusted: the json module and fbverif/canon.py as reference semantics. Held on everything generated; values '
              'deeper than ~12 leaves and NaN are outside the explored domain.')
