"""C02  Rollback: a build that raises leaves the pre-build state.

For a generated (program, history prefix) the harness saves the sandbox, runs the build once
without a crash to count the K statement boundaries that user code actually reaches (this run is
also the *twin*: the same build without a preceding failed build), then for every k < K (all of
them when K <= KMAX, else a Hypothesis-drawn subset) restores the saved state, runs the build with
an uncatchable ``Crash`` raised at boundary k, checks the rollback oracle, and runs the build again
without crash to compare outcome / tree incl. mtimes / invocation log with the twin.
Cache-write failure (position K+1) is injected through the interposition layer (see c14/interpose).
"""
import os
import sys

from hypothesis import strategies as st

from .. import gen, histprop

ID = 'C02'
LEVEL = 'fault_enumeration'
CLAUSES = ('C02',)
TECHNIQUE = 'crash-point enumeration over Hypothesis-generated programs and history prefixes, oracle = byte+mtime snapshot equality and twin-history comparison'
RULE = ('Each evaluation = one (program, history prefix, crash point k) run: the build is executed with an exception raised '
        'at the k-th statement boundary of user code (before/after each builder call, inside nested functions, after the '
        'last statement; all k when K<=16, else 16 drawn positions), plus one cache-write failure per prefix, plus natural '
        'failing builds in the prefix; in a fifth of the cases an output path is first made a symbolic link (absolute or relative) to a regular file. Checked: identity of the propagated exception, every pre-existing regular file back '
        'with identical bytes+mtime_ns, no new file/directory (except re-created directories of the previous build), temp '
        'dir empty, and the following build equal to its twin without the failed build (outcome, tree with mtimes, '
        'invocation log). Non-trivial = crash on top of a valid cache after the failed build had already written >=1 output '
        'or reused >=1 cached result; distinct = distinct (scenario, k).')
ASSUMPTIONS = [
    'crash points are statement boundaries of generated user code; exceptions raised inside library code are covered by C14',
    'latitude L4: directories recorded as created by the previous committed build (and ancestors needed to hold them) may reappear empty',
]
CFG = gen.cfg_with(probe_w=1, max_root=5)
KMAX = 16


def program_strategy(cfg, cache):
    from hypothesis import strategies as _st
    return gen.weighted([(2, gen.program(cfg, cache)), (1, gen.ancestor_pattern_program(cfg, cache))])


def drive(draw, h, cfg):
    names = list(h.prog_rel['funcs'])
    univ = cfg['universe']
    h.c02_nt = 0
    h.nt_keys = []
    # ---- history prefix: no cache / valid cache / tampered or deleted outputs / swaps
    shape = draw(st.sampled_from(['none', 'cache', 'cache', 'cache+ext', 'cache+ext', 'cache+ext', 'long']))
    if shape != 'none':
        for _ in range(draw(st.integers(0, 2))):
            h.failures.extend(h.apply(histprop.draw_ext(draw, h, univ, bias=False)))
        h.failures.extend(h.apply(histprop.draw_build(draw, h, names, fail_p=0.0)))
        if shape in ('cache+ext', 'long'):
            for _ in range(draw(st.integers(1, 3))):
                h.failures.extend(h.apply(histprop.draw_ext(draw, h, univ)))
            anc = [s_[1] for s_ in h.prog_rel['root'] if s_[0] == 'bf' and s_[2] == 'f0'] if 'alt_roots' in h.prog_rel else []
            if anc and draw(st.sampled_from(range(4))):
                # ancestor pattern: the recorded output F (an ancestor path of the other target) is stale, so the crashing
                # build rebuilds it before it requests the path below it
                h.failures.extend(h.apply([draw(st.sampled_from(['touch', 'write'])), anc[0], 1]))
        if shape == 'long':
            h.failures.extend(h.apply(histprop.draw_build(draw, h, names, fail_p=0.3)))
            for _ in range(draw(st.integers(0, 2))):
                h.failures.extend(h.apply(histprop.draw_ext(draw, h, univ)))
    else:
        for _ in range(draw(st.integers(0, 3))):
            h.failures.extend(h.apply(histprop.draw_ext(draw, h, univ, bias=False)))
    if h.dead:
        return
    vers = draw(gen.versions_for(names)) if gen.chance(draw, 0.3) else (h.last.get('versions', {}) if h.last else {})
    if gen.chance(draw, 0.2):
        # an output path of the program is, before the crashing build, a symbolic link (absolute or relative text) to a
        # regular file that no build_file call touches: for the library it is a foreign regular file, which the
        # rollback has to put back as it was
        from ..dsl import iter_stmts
        targets = sorted({s_[1] for blk in [h.prog_rel['root']] + [f['body'] for f in h.prog_rel['funcs'].values()]
                          for s_ in iter_stmts(blk) if s_[0] == 'bf'})
        files = [u for u in univ if os.path.isfile(h.sb.ap(u)) and not os.path.islink(h.sb.ap(u)) and
                 not any(u == t or u.startswith(t + '/') or t.startswith(u + '/') for t in targets)]
        spots = [t for t in targets if not os.path.lexists(h.sb.ap(t)) and not h.protected(h.sb.ap(t))]
        if files and spots:
            n0 = h.stats['ext_effective']
            h.failures.extend(h.apply(['symlink', draw(st.sampled_from(spots)), draw(st.sampled_from(files))] +
                                      (['rel'] if draw(st.booleans()) else [])))
            h.stats['c02_linked_output_paths'] += h.stats['ext_effective'] - n0
    if h.dead:
        return
    # ---- counting run == twin
    h.apply(['save'])
    h.failures.extend(h.apply(['build', vers, None, None, {'k': None}]))      # fault-free run that also lists the library's mutating calls
    if h.dead:
        return
    K = h.rctx.boundary
    labels = list(h.last_fault['labels'])
    h.stats['c02_prefixes'] += 1
    h.stats['c02_boundaries'] += K
    if K <= KMAX:
        ks = list(range(K))
        h.stats['c02_prefix_exhaustive'] += 1
    else:
        ks = sorted(draw(st.lists(st.sampled_from(range(K)), min_size=KMAX, max_size=KMAX, unique=True)))
    for k in ks:
        if h.dead:
            break
        h.apply(['restore'])
        # every fourth crash is a BaseException that is not an Exception (KeyboardInterrupt / SystemExit reaching build)
        base = draw(st.sampled_from(range(4))) == 0
        h.failures.extend(h.apply(['build', vers, None, k] + ([{'base': True}] if base else [])))
        h.stats['c02_crash_runs'] += 1
        h.stats['c02_crash_runs_base_exception'] += base
        if h.last.get('has_cache') and (h.rctx.written or h.rctx.hits):
            h.c02_nt += 1
            h.nt_keys.append(['crash', len(h.steps), k])
            h.stats['c02_crash_after_work_on_cache'] += 1
        if h.dead:
            break
        h.failures.extend(h.apply(['build', vers, None, None, 'cmp_twin']))
    # ---- position K+1: the root function returned, writing the cache file fails
    if not h.dead and 'gzip.open:w' in labels:
        h.apply(['restore'])
        h.failures.extend(h.apply(['build', vers, None, None, {'k': labels.index('gzip.open:w'), 'catch': False}]))
        if getattr(h, 'last_fault', {}).get('fired'):
            h.stats['c02_cache_write_failures'] += 1
            if h.last.get('has_cache'):
                h.c02_nt += 1
                h.nt_keys.append(['cachewrite', len(h.steps)])
        if not h.dead:
            h.failures.extend(h.apply(['build', vers, None, None, 'cmp_twin']))


def adopt(h, f):
    return 'C02.cache_write_failure_not_surfaced' if f['clause'] == 'C14.not_surfaced' else None


def nontrivial(h):
    return h.c02_nt > 0


def plan(tier, seed):
    return histprop.plan_shards(tier, seed, 4500, 120000)


def run_shard(shard):
    res = histprop.run_history_shard(sys.modules[__name__], shard)
    # evaluations = crash runs, not prefixes
    res['counters']['prefixes'] = res['evaluations']
    res['evaluations'] = int(res['counters'].get('c02_crash_runs', 0)) + int(res['counters'].get('rollbacks', 0) - res['counters'].get('c02_crash_runs', 0))
    return res


def replay(case):
    from ..harness import run_scenario
    return run_scenario(case, clauses=CLAUSES, adopt=adopt)[0]


def shrink_candidates(case):
    """Drop whole (restore, crash build, twin build) groups first, then the generic candidates."""
    steps = case['steps']
    idx = [i for i, s in enumerate(steps) if s[0] == 'restore']
    for i in idx:
        j = i + 1
        while j < len(steps) and steps[j][0] != 'restore':
            j += 1
        if j < len(steps) or i != idx[-1] or True:
            c = dict(case)
            c['steps'] = steps[:i] + steps[j:]
            if c['steps'] != steps:
                yield c
    yield from histprop.shrink_candidates(case)


def vacuity(counters, evaluations, tier):
    if counters['c02_crash_after_work_on_cache'] * 20 < counters['c02_crash_runs']:
        return 'fewer than 5%% of crash runs hit after work on top of a valid cache (%d of %d)' % (
            counters['c02_crash_after_work_on_cache'], counters['c02_crash_runs'])
    return None


LEVEL_TEXT = ('Fault enumeration: for each generated program and history prefix every statement boundary reached by user code '
              'is used as a crash point (exhaustive per prefix up to 16 positions, sampled beyond), the pre/post snapshots are '
              'compared byte- and mtime-exact and the next build is compared with a twin history. Programs and prefixes are '
              'sampled, so this is evidence within the generated scope, not a proof.')
LEVEL_NOTE = ('Crash points are boundaries of generated user code only; failures inside library calls are injected separately '
              '(C14). Trusted: the snapshot/restore code of fbverif/sandbox.py and the twin comparison.')
