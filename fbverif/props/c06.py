"""C06  Version changes invalidate exactly the function and its transitive callers."""
import copy

from hypothesis import strategies as st

from .. import gen, histprop, valgen
from ..canon import canon
from ..histprop import step
from ..valuecodec import enc

ID = 'C06'
LEVEL = 'exploration'
CLAUSES = ('C06',)
TECHNIQUE = 'generated (old map, new map) version pairs over generated call graphs; invocation-log oracle in both directions plus from-scratch equivalence'
RULE = ('Each case = generated program with call chains (depth 1-4, build_file and subbuild, catching callers) and a history of '
        'build_versioned calls whose version maps are derived from each other by edits: JSON-equal-but-not-identical values '
        '(key order, 1 vs 1.0, tuple vs list, nested), near misses (True vs 1, "1" vs 1), absent vs None, fresh values; changed '
        'functions sit at every depth. Oracle (from the reference model\'s traces): every reached call whose record contains a '
        'function with a JSON-different version must be invoked (missed invalidation), every invoked call must be justified '
        '(so JSON-equal maps and independent subtrees re-execute nothing), and results/trees equal the from-scratch run with '
        'the new version tags. Non-trivial = a version-changing build in which a nested (depth>1) function changed and >=1 '
        'root-level subtree stayed cached; distinct = distinct scenario JSON.')
ASSUMPTIONS = [
    'function behaviour is a function of (name, JSON class of its version): the version tag is embedded in every result and output',
    'version maps are JSON values as the API requires',
]
CFG = gen.cfg_with(probe_w=0, max_root=5, max_funcs=6, max_body=3, raise_w=1, nonjson_p=0.0, nowrite_p=0.03,
                   chain_p=0.45, call_w=4, query_w=3, catch_p=0.9, unique_calls=0.9)
CLAUSE_ADOPT = {'C01.outcome': 'C06.result', 'C01.tree': 'C06.result', 'C05.unjustified': 'C06.over_invalidation',
                'C05.unchanged_rebuild': 'C06.over_invalidation'}

version_atoms = st.sampled_from([None, 1, 1.0, True, False, 0, '1', 'x', 2, 1.5, -0.0, 2 ** 60])
version_values = st.one_of(
    version_atoms,
    st.lists(version_atoms, max_size=2),
    st.lists(version_atoms, max_size=2).map(tuple),
    st.dictionaries(st.sampled_from(['a', 'b', '1']), version_atoms, max_size=2),
    st.dictionaries(st.sampled_from(['k']), st.lists(version_atoms, max_size=2), max_size=1),
)


def program_strategy(cfg, cache):
    return gen.weighted([(2, gen.tree_program(cfg, cache)), (1, gen.program(cfg, cache))])


def enc_versions(v):
    return {'$v': enc(v)}


def drive(draw, h, cfg):
    names = list(h.prog_rel['funcs'])
    univ = cfg['universe']
    for _ in range(draw(st.sampled_from([0, 0, 1, 2]))):
        step(h, histprop.draw_ext(draw, h, univ, bias=False))
    vers = {}
    for n in draw(st.lists(st.sampled_from(names), max_size=3, unique=True)):
        vers[n] = draw(version_values)
    step(h, ['build', enc_versions(vers), None])
    h.c06_pairs = []
    for _ in range(draw(st.integers(1, 4))):
        if h.dead:
            break
        new = copy.deepcopy(vers)
        kind = draw(st.sampled_from(['edit', 'edit', 'edit', 'fresh', 'drop', 'none', 'same', 'extra']))
        n = draw(st.sampled_from(names + names[1:] + names[2:]))
        if kind == 'edit':
            old = new.get(n)
            new[n], _names = draw(valgen.edited(old, allow_tuples=True, allow_raw_keys=False, max_edits=2))
        elif kind == 'fresh':
            new[n] = draw(version_values)
        elif kind == 'drop':
            new.pop(n, None)
        elif kind == 'none':
            new[n] = None
        elif kind == 'extra':
            # a name that is no function of the program - also names the library uses for its own operation kinds
            new[draw(st.sampled_from(['not_a_function', 'read', 'walk', 'list_dir', 'is_file', 'is_dir', 'exists', 'get_size',
                                      'build_file', 'subbuild']))] = draw(version_atoms)
        elif kind == 'same':
            new = dict(reversed(list(new.items())))
        changed = sorted(x for x in names if canon(vers.get(x)) != canon(new.get(x)))
        h.stats['c06_pairs'] += 1
        h.stats['c06_pairs_json_equal'] += not changed
        h.stats['c06_pairs_equal_not_identical'] += (not changed) and repr(vers) != repr(new)
        if gen.chance(draw, 0.15):
            step(h, histprop.draw_ext(draw, h, univ))
        step(h, ['build', enc_versions(new), None])
        vers = new


def adopt(h, f):
    """Result / over-invalidation failures of a build whose only change is the version map belong to C06."""
    if f['clause'] not in CLAUSE_ADOPT or getattr(h, 'mb', None) is None:
        return None
    if h.mutated_since_commit or not (h.last or {}).get('has_cache'):
        return None
    from ..harness import versions_equal
    names = list(h.prog['funcs'])
    changed = not versions_equal(h.mb.prev.versions, h.last.get('versions', {}), names)
    if f['clause'].startswith('C05'):
        return CLAUSE_ADOPT[f['clause']]          # unjustified re-execution although only versions were touched
    return CLAUSE_ADOPT[f['clause']] if changed else None


def nontrivial(h):
    return 'c06_nontrivial' in h.flags


histprop.install(globals(), 12000, 300000)


def vacuity(counters, evaluations, tier):
    if counters['c06_nontrivial_builds'] * 50 < counters['c06_pairs']:
        return 'non-trivial version changes below 2%% of pairs (%d of %d)' % (counters['c06_nontrivial_builds'], counters['c06_pairs'])
    if counters['c06_pairs_equal_not_identical'] * 100 < counters['c06_pairs']:
        return 'too few JSON-equal-but-not-identical version pairs'
    return None


LEVEL_TEXT = ('Randomised exploration of version-map pairs over generated call graphs with an exact two-sided oracle on the '
              'invocation log (must re-execute / must stay cached) computed from the reference model\'s recorded call forest, '
              'plus from-scratch equivalence of results with the new version tags.')
LEVEL_NOTE = ('Trusted: the reference model\'s trace forest and the independent JSON canonical form used to decide whether two '
              'versions are equal. Call graphs of <=6 functions, chains of depth <=4.')
