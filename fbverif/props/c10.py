"""C10  build_file contract: output appears atomically, failure leaves nothing."""
import os

from hypothesis import strategies as st

from .. import gen, histprop
from ..histprop import step

ID = 'C10'
LEVEL = 'exploration'
CLAUSES = ('C10',)
TECHNIQUE = 'targeted generator (target depth x prior state of target/ancestors x failure mode) with in-function and post-call assertions on the real file system plus differential view queries'
RULE = ('Each case = 1-3 build_file calls with targets of depth 1-4 (incl. an over-long directory component, which makes mkdir '
        'fail naturally at level j) whose functions succeed, raise before/after writing, do not create the file, return a '
        'non-JSON value or fail after a nested build_file, each followed by exists/is_dir/list_dir queries on the target and '
        'every ancestor; prior states of target and ancestors (absent, foreign file, stale output, stale empty directory, stale '
        'directory holding foreign content, foreign directory) are produced by external steps and earlier builds. Checked from '
        'inside the function (absolute normalised path, target absent, parents exist), right after the call on the real file '
        'system (regular file with the written bytes / target absent), through the virtual view at once (vs. the model) and '
        'on disk after the build (tree vs. model: no directory of a failed call left). Non-trivial = a failing build_file '
        '(function ran) that had created >=2 directories, or a build_file on a target/ancestor with a stale or foreign prior '
        'state; distinct = distinct scenario JSON.')
ASSUMPTIONS = ['directory names longer than 255 bytes make mkdir fail (Linux NAME_MAX); the model mirrors this as a setup failure that leaves nothing']
LONG = '@LONG'
UNIV = gen.make_universe(('a', 'b'), 3, ('c', 'c/a', 'a/a/a/a', 'a/a/a/b', 'b/a/b/a', 'c/' + LONG + '/x', 'c/d/' + LONG + '/x',
                                           'a/c/' + LONG + '/y/z', 'c/' + LONG, 'c/d', 'c/d/e', 'c/d/e/f'))
CFG = gen.cfg_with(universe=UNIV, probe_w=0, max_root=4, max_funcs=4, caches=['cache.gz', 'cache.gz', 'cd/cache.gz'])
ADOPT = {'C01.outcome': 'C10.after_failure', 'C01.tree': 'C10.leftover', 'C04.answer': 'C10.view'}
MODES = ['ok', 'ok', 'raise_before', 'raise_after', 'no_create', 'nonjson', 'nested_then_raise', 'nested_fail_ok']


@st.composite
def program_strategy_c(draw, cfg, cache):
    univ = cfg['universe']
    masked = set(gen.cache_ancestors(cache))
    cand = draw(st.lists(st.sampled_from([u for u in univ if u.count('/') >= 1 or True]), min_size=2, max_size=7, unique=True))
    cand = [c for c in cand if os.path.basename(c) != LONG]
    outs = gen.prefix_free(cand, masked | {cache})
    if not outs:
        outs = ['a/a/a']
    funcs = {}
    root = []
    k = 0
    for tgt in outs[:draw(st.integers(1, 3))]:
        mode = draw(st.sampled_from(MODES))
        fn = 'f%d' % k
        k += 1
        rs = draw(gen.raise_stmt)
        body = {'ok': [['write']], 'raise_before': [rs, ['write']], 'raise_after': [['write'], rs],
                'no_create': [], 'nonjson': [['write'], ['ret_nonjson']]}.get(mode)
        if body is None:
            rest = [o for o in outs if o != tgt]
            inner_fn = 'f%d' % k
            k += 1
            inner_mode = draw(st.sampled_from(['ok', 'raise_after', 'no_create']))
            funcs[inner_fn] = {'kind': 'file', 'body': {'ok': [['write']], 'raise_after': [['write'], ['raise']], 'no_create': []}[inner_mode]}
            inner_tgt = draw(st.sampled_from(rest)) if rest else tgt + '_n'
            inner = ['bf', inner_tgt, inner_fn, [], 'METADATA', True]
            body = [['write'], inner, ['raise']] if mode == 'nested_then_raise' else [inner, ['write']]
        if draw(st.sampled_from(range(3))) == 0:
            body = [['q', draw(st.sampled_from(['exists', 'list_dir', 'is_dir'])), os.path.dirname(tgt), 'METADATA']] + body
        funcs[fn] = {'kind': 'file', 'body': body}
        call = ['bf', tgt, fn, [], draw(st.sampled_from(['METADATA', 'HASH'])), draw(st.sampled_from([True, True, True, False]))]
        if draw(st.sampled_from(range(5))) < 2:
            # the call is issued by a cacheable parent that catches its failure (records below a caught failure are reused later)
            pn = 'p%d' % k
            k += 1
            funcs[pn] = {'kind': 'sub', 'body': [call[:5] + [True]]}
            call = ['sb', pn, [], True]
        root.append(call)
        # the view right after the call: target and every ancestor
        root.append(['q', 'exists', tgt, 'METADATA'])
        d = os.path.dirname(tgt)
        while d:
            root.append(['q', draw(st.sampled_from(['is_dir', 'list_dir', 'exists'])), d, 'METADATA'])
            d = os.path.dirname(d)
        if draw(st.booleans()):
            root.append(['q', 'walk', '', 'METADATA'])
    return {'root': root, 'funcs': funcs, 'universe': list(univ)}


def program_strategy(cfg, cache):
    return program_strategy_c(cfg, cache)


def target_paths(h):
    out = []
    for s in h.prog_rel['root']:
        if s[0] == 'bf':
            p = s[1]
            while p:
                if os.path.basename(p) != LONG:
                    out.append(p)
                p = os.path.dirname(p)
    return [p for p in out if not h.protected(h.sb.ap(p))]


def note_build(h):
    mb = getattr(h, 'mb', None)
    if mb is None:
        return
    for r in mb.forest:
        for n in r.walk():
            if n.kind != 'file':
                continue
            h.stats['c10_build_file_calls'] += 1
            if n.raised and not n.setup_failed and len(n.created_dirs) >= 2:
                h.flags.add('c10_nontrivial')
                h.stats['c10_failed_after_creating_2_dirs'] += 1
            if n.setup_failed and n.exc == 'OSError':
                h.flags.add('c10_nontrivial')
                h.stats['c10_mkdir_failed_part_way'] += 1
            stale = n.path in mb.stale_outputs or any(a in mb.stale_dirs or a in mb.stale_outputs for a in _anc(n.path, h.R))
            if n.overwrote_foreign or stale or n.path in mb.stale_dirs:
                h.flags.add('c10_nontrivial')
                h.stats['c10_stale_or_foreign_prior_state'] += 1


def _anc(p, root):
    out = []
    d = os.path.dirname(p)
    while len(d) > len(root):
        out.append(d)
        d = os.path.dirname(d)
    return out


def drive(draw, h, cfg):
    names = list(h.prog_rel['funcs'])
    tp = target_paths(h) or cfg['universe'][:4]
    for _ in range(draw(st.sampled_from([0, 0, 1, 2, 3]))):
        step(h, draw(gen.ext_step(tp)))
    if draw(st.sampled_from(range(6))) == 0:
        # an ancestor directory of a target is a symbolic link to a directory elsewhere: for the library a plain directory
        anc = sorted({a for t in tp for a in ['/'.join(t.split('/')[:i]) for i in range(1, len(t.split('/')))]})
        anc = [a for a in anc if a and not os.path.lexists(h.sb.ap(a)) and not h.protected(h.sb.ap(a)) and len(a.split('/')[-1]) < 200]
        if anc:
            step(h, ['symlinkdir', draw(st.sampled_from(anc))])
            h.stats['c10_symlinked_ancestor'] += 1
    for i in range(draw(st.integers(1, 6))):
        if h.dead:
            break
        c = draw(st.sampled_from(range(12))) if i else 0
        if c < 6:
            step(h, histprop.draw_build(draw, h, names, fail_p=0.1, ver_p=0.3))
            note_build(h)
        elif c < 11:
            step(h, draw(gen.ext_step(tp)) if draw(st.booleans()) else histprop.draw_ext(draw, h, cfg['universe'][:20]))
        else:
            step(h, ['clean'])


def adopt(h, f):
    if f['clause'] not in ADOPT or getattr(h, 'mb', None) is None:
        return None
    failed = any(n.kind == 'file' and n.raised for r in h.mb.forest for n in r.walk())
    failed_prev = any(n.kind == 'file' and n.raised for r in h.mb.prev.forest for n in r.walk())
    if failed or failed_prev:
        return ADOPT[f['clause']]
    return None


def nontrivial(h):
    return 'c10_nontrivial' in h.flags


histprop.install(globals(), 12000, 300000)


def vacuity(counters, evaluations, tier):
    if counters['nontrivial_cases'] * 10 < evaluations:
        return 'non-trivial cases below 10%'
    if counters['c10_mkdir_failed_part_way'] < evaluations // 200:
        return 'too few part-way mkdir failures'
    return None


LEVEL_TEXT = ('Targeted randomised exploration of the build_file contract: the cross product of target depth, prior state and '
              'failure mode is sampled by construction; assertions run inside the function, right after the call on the real '
              'file system, through the virtual view and on the final tree.')
LEVEL_NOTE = ('Trusted: the in-function/post-call assertions of fbverif/dsl.py and the reference model for the view and the '
              'final tree. mkdir failures are natural (over-long component); injected mkdir failures at arbitrary levels are '
              'part of C14.')
