"""C17  Finished builders are fenced off (sequential part: exhaustive; racing part: scheduler, see below)."""
import collections
import gzip
import itertools
import json
import os
import threading

from .. import env  # noqa: F401
from ..model import UserError
from ..runner import failure, small_hash
from ..sandbox import Sandbox, snapshot

ID = 'C17'
LEVEL = 'exploration'
CLAUSES = ('C17',)
TECHNIQUE = 'exhaustive enumeration of (method x builder kind x owner outcome x timing x argument) for stale builders with a twin-run oracle; scheduler-driven interleavings for the racing straggler'
RULE = ('Sequential part (enumerated completely): every public builder method {build_file, build_file_with_comparison, subbuild, '
        'read_text, read_binary, declare_read, list_dir, walk, is_file, is_dir, exists, get_size} x builder kind {root, subbuild, '
        'build_file, subbuild nested in a build_file} x owner outcome {returned, raised, ended by a BaseException} x timing {later in the same build, '
        'after build returned, inside the except block that handles the owner\'s exception} x target {existing input, missing path, fresh output path}: the call must raise RuntimeError, '
        'must not invoke a function or create a file, and the tree, the decompressed cache file and the behaviour of the next '
        '(unchanged) build must equal the twin run without the stale call. Racing part: a straggler thread calls one method on '
        'a builder while its owner returns, under scheduler-enumerated interleavings (<=2 preemptions): RuntimeError or a result '
        'that is part of the record. Non-trivial = every enumerated sequential combination except the trivially impossible '
        'ones, and every interleaving in which the straggler passed the finished-check before the owner finished; distinct = '
        'distinct combination / schedule.')
ASSUMPTIONS = ['the set of public methods is taken from the class at run time (dir(FileBuilder) minus build/build_versioned/clean)']

class RootFailure(Exception):
    """Raised by the root function of the 'root_raise' race owner."""


class Abort(BaseException):
    """User code may also end with a BaseException that is not an Exception (KeyboardInterrupt, SystemExit, ...)."""


QUERIES = ['read_text', 'read_binary', 'declare_read', 'list_dir', 'walk', 'is_file', 'is_dir', 'exists', 'get_size']
METHODS = ['build_file', 'build_file_with_comparison', 'subbuild'] + QUERIES
OWNERS = ['root', 'sub', 'file', 'nested']
TARGETS = ['input', 'missing', 'fresh']


def public_methods():
    from file_builder import FileBuilder
    return sorted(n for n in dir(FileBuilder) if not n.startswith('_') and n not in ('build', 'build_versioned', 'clean')
                  and callable(getattr(FileBuilder, n)))


def run_once(combo, with_stale_call):
    """Returns dict(result of stale call, tree, cache json, next build log/outcome)."""
    from file_builder import FileBuilder, FileComparison
    method, owner, outcome, timing, target = combo
    sb = Sandbox()
    try:
        R = sb.R
        os.mkdir(os.path.join(R, 'in'))
        with open(os.path.join(R, 'in', 'a'), 'w') as f:
            f.write('input')
        os.utime(os.path.join(R, 'in', 'a'), ns=(10 ** 18, 10 ** 18))
        cache = os.path.join(R, 'cache.gz')
        tpath = {'input': os.path.join(R, 'in', 'a') if method not in ('list_dir', 'walk') else os.path.join(R, 'in'),
                 'missing': os.path.join(R, 'nope', 'x'), 'fresh': os.path.join(R, 'out2', 'late')}[target]
        stash = {}
        log = []
        stale = {}

        def late_func(b, *a):
            log.append('LATE')
            if a:
                with open(a[0], 'w') as f:
                    f.write('late')
            return 'late'

        def stale_call(b):
            try:
                if method == 'build_file':
                    r = b.build_file(tpath, 'late', late_func)
                elif method == 'build_file_with_comparison':
                    r = b.build_file_with_comparison(tpath, FileComparison.HASH, 'late', late_func)
                elif method == 'subbuild':
                    r = b.subbuild('late', late_func)
                elif method in ('read_text', 'read_binary'):
                    r = getattr(b, method)(tpath)
                    r.close()
                    r = 'opened'
                else:
                    r = getattr(b, method)(tpath)
                stale['result'] = ('returned', repr(r)[:80])
            except RuntimeError as e:
                stale['result'] = ('RuntimeError', str(e)[:60])
            except Exception as e:
                stale['result'] = (type(e).__name__, str(e)[:60])

        def finish(kind):
            if owner == kind and outcome == 'raised':
                raise UserError(kind)
            if owner == kind and outcome == 'base_exception':
                raise Abort(kind)

        def nested_fn(b):
            log.append('nested')
            stash['nested'] = b
            b.exists(os.path.join(R, 'in', 'a'))
            finish('nested')
            return 'n'

        def file_fn(b, path):
            log.append('file')
            stash['file'] = b
            try:
                b.subbuild('nested', nested_fn)
            except UserError:
                if with_stale_call and timing == 'in_handler' and owner == 'nested':
                    stale_call(stash['nested'])        # while the owner's exception is being handled
            with open(path, 'w') as f:
                f.write('out')
            os.utime(path, ns=(10 ** 18 + 5, 10 ** 18 + 5))
            finish('file')
            return 'f'

        def sub_fn(b):
            log.append('sub')
            stash['sub'] = b
            b.is_file(os.path.join(R, 'in', 'a'))
            finish('sub')
            return 's'

        def root(b):
            stash['root'] = b
            obs = []
            for name, call in (('sub', lambda: b.subbuild('sub', sub_fn)),
                               ('file', lambda: b.build_file(os.path.join(R, 'out', 'o'), 'file', file_fn))):
                try:
                    obs.append(call())
                except UserError:
                    obs.append('!')
                    if with_stale_call and timing == 'in_handler' and owner == name:
                        stale_call(stash[owner])       # while the owner's exception is being handled
            if with_stale_call and timing == 'same_build' and owner != 'root':
                stale_call(stash[owner])
            finish('root')
            return obs

        res = {}
        try:
            res['outcome'] = ('ok', FileBuilder.build(cache, 'c17', root))
        except UserError:
            res['outcome'] = ('exc', 'UserError')
            if with_stale_call and timing == 'in_handler' and 'result' not in stale:
                stale_call(stash[owner])               # inside the handler of the exception that ended the build
        except Abort:
            res['outcome'] = ('exc', 'Abort')
            if with_stale_call and timing == 'in_handler' and 'result' not in stale:
                stale_call(stash[owner])
        if with_stale_call and timing != 'in_handler' and (timing == 'after_build' or owner == 'root'):
            stale_call(stash[owner])
        res['stale'] = stale.get('result')
        res['log1'] = list(log)
        res['tree'] = {os.path.relpath(k, R): v[:3] for k, v in snapshot(R).items() if k != cache}
        res['tmp'] = sb.tmp_listing()
        if os.path.isfile(cache):
            with gzip.open(cache, 'rt') as f:
                res['cache'] = json.dumps(json.load(f), sort_keys=True).replace(R, 'R')
        else:
            res['cache'] = None
        del log[:]
        try:
            res['outcome2'] = ('ok', FileBuilder.build(cache, 'c17', root))
        except UserError:
            res['outcome2'] = ('exc', 'UserError')
        except Abort:
            res['outcome2'] = ('exc', 'Abort')
        res['log2'] = list(log)
        return res
    finally:
        sb.close()


def check_combo(combo):
    case = {'combo': list(combo)}
    twin = run_once(combo, False)
    real = run_once(combo, True)
    fails = []
    if real['stale'] is None:
        raise RuntimeError('harness: the stale call was never issued for %r' % (combo,))
    if real['stale'][0] != 'RuntimeError':
        fails.append(failure('C17.not_fenced', '%s on a finished %s builder %s instead of raising RuntimeError' % (
            combo[0], combo[1], 'returned' if real['stale'][0] == 'returned' else 'raised ' + real['stale'][0]), case, repr(real['stale'])))
    if 'LATE' in real['log1']:
        fails.append(failure('C17.effect', 'a function passed to a finished builder was invoked', case, ''))
    for k, what in (('tree', 'tree'), ('cache', 'cache file'), ('outcome', 'build outcome'), ('outcome2', 'next build outcome'),
                    ('log2', 'next build invocations'), ('tmp', 'temp directory')):
        if real[k] != twin[k]:
            fails.append(failure('C17.effect', 'the stale call changed the %s compared with the twin run' % what, case,
                                 'twin=%r\nreal=%r' % (str(twin[k])[:600], str(real[k])[:600])))
            break
    return fails


def all_combos():
    for method, owner, outcome, timing, target in itertools.product(METHODS, OWNERS, ['returned', 'raised', 'base_exception'],
                                                                    ['same_build', 'after_build', 'in_handler'], TARGETS):
        if timing == 'in_handler' and outcome == 'returned':
            continue            # no exception to handle
        if owner == 'root' and timing == 'same_build':
            continue            # the root builder only finishes when build returns
        if outcome == 'base_exception' and timing == 'same_build':
            continue            # nobody catches the BaseException: it ends the whole build
        if method == 'subbuild' and target != 'input':
            continue            # subbuild takes no path
        yield (method, owner, outcome, timing, target)


# --------------------------------------------------------------------------------------------------
# racing straggler (scheduler-driven)
# --------------------------------------------------------------------------------------------------

RACE_METHODS = ['is_file', 'exists', 'is_dir', 'list_dir', 'walk', 'get_size', 'declare_read', 'read_text', 'subbuild', 'build_file']
RACE_OWNERS = ['sub', 'file', 'root', 'root_raise']


def race_once(method, owner, spec):
    """One run: the owner function spawns a straggler thread that calls ``method`` on the owner's
    builder, does a little work and returns.  Returns a dict describing what happened."""
    from file_builder import FileBuilder
    from .. import sched
    sb = Sandbox()
    sched.enable()
    try:
        R = sb.R
        os.mkdir(os.path.join(R, 'in'))
        for n in ('a', 'probe'):
            with open(os.path.join(R, 'in', n), 'w') as f:
                f.write('input')
            os.utime(os.path.join(R, 'in', n), ns=(10 ** 18, 10 ** 18))
        cache = os.path.join(R, 'cache.gz')
        probe = os.path.join(R, 'in', 'probe') if method not in ('list_dir', 'walk') else os.path.join(R, 'in')
        late_out = os.path.join(R, 'late', 'o')
        info = {'straggler': None, 'late_invoked': False, 'log': []}

        def late_func(b, *a):
            info['late_invoked'] = True
            if a:
                with open(a[0], 'w') as f:
                    f.write('late')
            return 'late'

        def straggler(b):
            info['started_after_end'] = bool(info.get('owner_ended'))
            info['_st_ident'] = threading.get_ident()
            try:
                if method == 'build_file':
                    r = b.build_file(late_out, 'late', late_func)
                elif method == 'subbuild':
                    r = b.subbuild('late', late_func)
                elif method == 'read_text':
                    r = b.read_text(probe)
                    r.close()
                    r = 'opened'
                else:
                    r = getattr(b, method)(probe)
                info['straggler'] = ('value', repr(r)[:60])
            except RuntimeError as e:
                info['straggler'] = ('RuntimeError', str(e)[:50])
            except Exception as e:
                info['straggler'] = (type(e).__name__, str(e)[:80])

        S = [None]
        # observe appends to a closed record at the moment they happen: every ComplexOperation gets a list that knows it
        import file_builder.operation as op_mod

        class WatchedList(list):
            owner_op = None

            def append(self, x):
                if self.owner_op is not None and self.owner_op.is_finished:
                    info['appended_after_close'] = True
                list.append(self, x)
        orig_init = op_mod.ComplexOperation.__init__

        def watched_init(self, func_name, args, kwargs, suboperations, *rest):
            if func_name == 'owner':
                info['_owner_op'] = self
            if type(suboperations) is list:
                w = WatchedList(suboperations)
                w.owner_op = self
                suboperations = w
            orig_init(self, func_name, args, kwargs, suboperations, *rest)
        op_mod.ComplexOperation.__init__ = watched_init
        # observe *when* the straggler looks at the probed path: an observation made after the owner's record was closed
        # must not be accepted (the call has to end with RuntimeError)
        from .. import interpose as _ip
        base_hook = _ip.HOOK

        def timing_hook(label, args):
            # (read_text/read_binary open the file for the caller after the recorded comparison: that open is not an observation)
            if (args and isinstance(args[0], str) and args[0].startswith(probe) and
                    threading.get_ident() == info.get('_st_ident') and
                    not (method in ('read_text', 'read_binary') and label == 'open:r')):
                op = info.get('_owner_op')
                if op is not None and op.is_finished:
                    info['observed_after_close'] = True
            if base_hook is not None:
                base_hook(label, args)
        _ip.HOOK = timing_hook
        # observe appends to a record that was already closed before the call (must raise, never attach)
        orig_append = FileBuilder._append_suboperation

        def watched_append(self, suboperation):
            op = self._operation
            was_finished = op is not None and op.is_finished
            orig_append(self, suboperation)
            if was_finished:
                info['appended_after_close'] = True
        FileBuilder._append_suboperation = watched_append

        def owner_body(b, path=None):
            info['log'].append('owner')
            S[0].spawn(lambda: straggler(b))
            b.exists(os.path.join(R, 'in', 'a'))
            if path is not None:
                with open(path, 'w') as f:
                    f.write('out')
                os.utime(path, ns=(10 ** 18 + 1, 10 ** 18 + 1))
            return 'owner'

        def task(b):
            if owner == 'sub':
                return b.subbuild('owner', lambda bb: owner_body(bb))
            return b.build_file(os.path.join(R, 'out', 'o'), 'owner', lambda bb, p: owner_body(bb, p))

        def root(b):
            S[0] = sched.Sched(spec)
            res = S[0].run_all([lambda: task(b)])
            info['decisions'] = S[0].n
            info['deadlock'] = S[0].deadlocked
            for r in res:
                if r is not None and r[0] == 'exc' and not isinstance(r[1], RuntimeError):
                    raise r[1]
            return 'root'

        def root_owner(b):
            # the root function itself is the owner: it starts the straggler and returns (or raises), so the straggler
            # races with the end of the build (cache write and commit / rollback run in the same managed thread)
            owner_body(b)
            info['owner_ended'] = True
            if owner == 'root_raise':
                raise RootFailure('root function fails')
            return 'root'

        try:
            if owner in ('root', 'root_raise'):
                S[0] = sched.Sched(spec)
                res = S[0].run_all([lambda: FileBuilder.build(cache, 'c17r', root_owner)])
                info['decisions'] = S[0].n
                info['deadlock'] = S[0].deadlocked
                if res[0] is not None and res[0][0] == 'exc':
                    raise res[0][1]
                info['outcome'] = ('ok', res[0][1])
            else:
                info['outcome'] = ('ok', FileBuilder.build(cache, 'c17r', root))
        except RootFailure:
            info['outcome'] = ('rolled_back', None)
        except Exception as e:
            info['outcome'] = ('exc', type(e).__name__ + ': ' + str(e)[:80])
        sched.disable()
        FileBuilder._append_suboperation = orig_append
        op_mod.ComplexOperation.__init__ = orig_init
        info['late_file'] = os.path.exists(late_out)
        info['tmp'] = sb.tmp_listing()
        if os.path.isfile(cache):
            with gzip.open(cache, 'rt') as f:
                cj = json.load(f)
        else:
            cj = None
        info['cache'] = cj
        # is the straggler's operation attached to the owner's record / present anywhere in the cache?
        attached = False
        anywhere = False
        if cj:
            def walk_ops(ops, under_owner):
                nonlocal attached, anywhere
                for op in ops:
                    is_owner = op.get('funcName') == 'owner'
                    mine = (op.get('type') == {'declare_read': 'read', 'read_text': 'read'}.get(method, method) and
                            (op.get('args') or [None])[0] in (probe,)) or op.get('funcName') == 'late'
                    if mine:
                        anywhere = True
                        if under_owner:
                            attached = True
                    walk_ops(op.get('suboperations', []), under_owner or is_owner)
            walk_ops(cj.get('rootOperations', []), owner in ('root', 'root_raise'))
        info['attached'] = attached
        info['anywhere'] = anywhere
        # behavioural confirmation: flip the probed answer and rebuild (the spawn is not repeated: plain functions)
        if method in ('is_file', 'exists', 'get_size', 'declare_read', 'read_text'):
            os.remove(os.path.join(R, 'in', 'probe'))
        elif method in ('list_dir', 'walk'):
            with open(os.path.join(R, 'in', 'new'), 'w') as f:
                f.write('n')
        elif method == 'is_dir':
            os.remove(os.path.join(R, 'in', 'probe'))
            os.mkdir(os.path.join(R, 'in', 'probe'))
        relog = []

        def owner2(b, path=None):
            relog.append('owner')
            b.exists(os.path.join(R, 'in', 'a'))
            if path is not None:
                with open(path, 'w') as f:
                    f.write('out')
                os.utime(path, ns=(10 ** 18 + 1, 10 ** 18 + 1))
            return 'owner'

        def root2(b):
            if owner == 'sub':
                b.subbuild('owner', lambda bb: owner2(bb))
            else:
                b.build_file(os.path.join(R, 'out', 'o'), 'owner', lambda bb, p: owner2(bb, p))
            return 'root'
        if cj is not None and method not in ('subbuild', 'build_file') and owner not in ('root', 'root_raise'):
            try:
                FileBuilder.build(cache, 'c17r', root2)
                info['owner_reexecuted_after_flip'] = bool(relog)
            except Exception as e:
                info['owner_reexecuted_after_flip'] = 'exc:' + type(e).__name__
        return info
    finally:
        sched.disable()
        try:
            FileBuilder._append_suboperation = orig_append
            op_mod.ComplexOperation.__init__ = orig_init
        except NameError:
            pass
        sb.close()


def check_race(method, owner, spec):
    case = {'race': [method, owner, spec]}
    info = race_once(method, owner, spec)
    fails = []
    st_ = info['straggler']
    if info.get('deadlock'):
        fails.append(failure('C17.race_deadlock', 'deadlock between the straggler and the returning owner', case, ''))
    if st_ is None:
        raise RuntimeError('harness: straggler never ran (%r)' % (info.get('outcome'),))
    if owner == 'root_raise':
        # the build is rolled back.  A call that *starts* after the root function ended must be refused (call-level
        # schedules only: in line mode the few lines between the raise and the fence are scheduling points too)
        if info['outcome'][0] != 'rolled_back':
            fails.append(failure('C17.race_build_failed', 'the failing root function\'s exception was replaced: %r' % (info['outcome'],), case, ''))
            return fails, info
        if not spec.get('lines') and info.get('started_after_end') and st_[0] != 'RuntimeError':
            fails.append(failure('C17.not_fenced', 'straggler %s on the root builder started after the root function had raised and was not '
                                 'refused (%s)' % (method, st_[0]), case, st_[1]))
        if st_[0] == 'RuntimeError' and method in ('subbuild', 'build_file') and (info['late_invoked'] or info['late_file']):
            fails.append(failure('C17.race_refused_with_effect',
                                 'straggler %s was refused with RuntimeError but had an effect (function invoked=%s, output exists=%s)' % (
                                     method, info['late_invoked'], info['late_file']), case, ''))
        if info['late_file'] or info['cache'] is not None:
            fails.append(failure('C17.race_root_orphan', 'after the rolled-back build: straggler output exists=%s, cache file exists=%s' % (
                info['late_file'], info['cache'] is not None), case, ''))
        if info['tmp']:
            fails.append(failure('C17.race_effect', 'temporary directory left', case, ''))
        return fails, info
    if info['outcome'][0] != 'ok':
        fails.append(failure('C17.race_build_failed', 'the build failed because of the straggler: %s' % info['outcome'][1][:60], case, ''))
        return fails, info
    if st_[0] not in ('value', 'RuntimeError'):
        fails.append(failure('C17.race_exception', 'straggler %s raised %s (neither a result nor RuntimeError)' % (method, st_[0]), case, st_[1]))
    if owner == 'root' and not spec.get('lines') and info.get('started_after_end') and st_[0] != 'RuntimeError':
        fails.append(failure('C17.not_fenced', 'straggler %s on the root builder started after the root function had returned and was not '
                             'refused (%s)' % (method, st_[0]), case, st_[1]))
    if owner == 'root':
        # the root function is not cacheable: a query result needs no record; an accepted build_file/subbuild must be
        # part of the committed build (recorded in the cache file, output present), a refused one must have no effect
        if st_[0] == 'value' and method in ('subbuild', 'build_file') and not (info['anywhere'] and (method == 'subbuild' or info['late_file'])):
            fails.append(failure('C17.race_root_orphan', 'straggler %s on the root builder was accepted but is not part of the committed build '
                                 '(recorded=%s, output exists=%s)' % (method, info['anywhere'], info['late_file']), case, ''))
        if st_[0] == 'RuntimeError' and method in ('subbuild', 'build_file') and (info['late_invoked'] or info['late_file'] or info['anywhere']):
            fails.append(failure('C17.race_refused_with_effect',
                                 'straggler %s was refused with RuntimeError but had an effect (function invoked=%s, output exists=%s, cache entry=%s)' % (
                                     method, info['late_invoked'], info['late_file'], info['anywhere']), case, ''))
        if info['tmp']:
            fails.append(failure('C17.race_effect', 'temporary directory left', case, ''))
        return fails, info
    if st_[0] == 'value' and not info['attached']:
        fails.append(failure('C17.race_unrecorded', 'straggler %s on a %s builder got a result that is not part of the owner\'s record' % (method, owner),
                             case, json.dumps(info['cache'])[:800]))
    if info.get('appended_after_close'):
        fails.append(failure('C17.race_attached_after_close', 'an operation was appended to a record that had already been closed', case, ''))
    if st_[0] == 'value' and info.get('observed_after_close') and method not in ('subbuild', 'build_file'):
        fails.append(failure('C17.race_attached_after_close', 'straggler %s returned a value although it looked at the file system after '
                             'the owner\'s record had been closed' % method, case, ''))
    if st_[0] == 'RuntimeError' and info['attached']:
        fails.append(failure('C17.race_attached_after_close', 'straggler %s was refused but its operation is attached to the closed record' % method,
                             case, json.dumps(info['cache'])[:800]))
    if st_[0] == 'RuntimeError' and method in ('subbuild', 'build_file') and (info['late_invoked'] or info['late_file'] or info['anywhere']):
        fails.append(failure('C17.race_refused_with_effect',
                             'straggler %s was refused with RuntimeError but had an effect (function invoked=%s, output exists=%s, cache entry=%s)' % (
                                 method, info['late_invoked'], info['late_file'], info['anywhere']), case, ''))
    flip = info.get('owner_reexecuted_after_flip')
    if flip is not None and not isinstance(flip, str):
        if st_[0] == 'value' and not flip:
            fails.append(failure('C17.race_unrecorded', 'the straggler\'s observation changed but the owner was served from the cache', case, ''))
        if st_[0] == 'RuntimeError' and flip:
            fails.append(failure('C17.race_attached_after_close', 'a refused straggler observation invalidates the owner\'s record', case, ''))
    if info['tmp']:
        fails.append(failure('C17.race_effect', 'temporary directory left', case, ''))
    return fails, info


def plan(tier, seed):
    shards = [{'part': 'seq', 'i': i, 'n': 16, 'tier': tier} for i in range(16)]
    for i in range(16):
        shards.append({'part': 'race', 'i': i, 'n': 16, 'tier': tier, 'seed': seed})
    return shards


def run_race_shard(shard):
    """All (method, owner) pairs; call-level single preemptions exhaustively, line-level single preemptions
    exhaustively and line-level pairs (a seeded sample in the quick tier, a larger one in thorough)."""
    import random
    counters = collections.Counter()
    fails = []
    nontriv = set()
    samples = []
    n = 0
    combos = [(m, o) for m in RACE_METHODS for o in RACE_OWNERS]
    rng = random.Random(shard['seed'] * 131 + shard['i'])
    for idx, (m, o) in enumerate(combos):
        if idx % shard['n'] != shard['i']:
            continue
        _f, info = check_race(m, o, {'preempt': []})
        N = info['decisions']
        _f, info = check_race(m, o, {'preempt': [], 'lines': True})
        NL = info['decisions']
        specs = [{'preempt': []}] + [{'preempt': [[i, 0]]} for i in range(1, N + 2)]
        specs += [{'preempt': [[i, 0]], 'lines': True} for i in range(1, NL + 2)]
        specs.append(None)
        D = {}
        k = 0
        while k < len(specs):
            spec = specs[k]
            k += 1
            if spec is None:
                # second preemption anywhere in the run as it is *after* the first one (a preempted run is longer than
                # the undisturbed one: the straggler starts earlier and both threads meet at more points)
                pairs = [(i, j) for i in sorted(D) for j in range(i + 1, D[i] + 2)]
                budget = 250 if shard['tier'] == 'quick' else 6000
                if len(pairs) > budget:
                    pairs = rng.sample(pairs, budget)
                else:
                    counters['race_pairs_exhaustive'] += 1
                specs += [{'preempt': [[i, 0], [j, 0]], 'lines': True} for i, j in pairs]
                continue
            fs, info = check_race(m, o, spec)
            if spec.get('lines') and len(spec['preempt']) == 1:
                D[spec['preempt'][0][0]] = info['decisions']
            n += 1
            fails.extend(fs[:1])
            counters['race_runs'] += 1
            counters['race_straggler_' + info['straggler'][0]] += 1
            interesting = info['straggler'][0] == 'value' or (info['straggler'][0] == 'RuntimeError' and info['late_invoked'])
            if interesting:
                counters['race_straggler_got_past_the_check'] += 1
                nontriv.add(small_hash([m, o, spec]))
                if len(samples) < 2:
                    samples.append({'race': [m, o, spec], 'straggler': info['straggler']})
    return {'evaluations': n, 'nontrivial': nontriv, 'samples': samples, 'counters': counters, 'failures': fails}


def run_shard(shard):
    if shard.get('part') == 'race':
        return run_race_shard(shard)
    counters = collections.Counter()
    fails = []
    nontriv = set()
    samples = []
    n = 0
    if shard['i'] == 0:
        missing = [m for m in public_methods() if m not in METHODS]
        if missing:
            fails.append(failure('C17.not_fenced', 'public builder methods not covered by the enumeration: %s' % missing,
                                 {'combo': ['<coverage>']}, ''))
    for idx, combo in enumerate(all_combos()):
        if idx % shard['n'] != shard['i']:
            continue
        n += 1
        fs = check_combo(combo)
        fails.extend(fs[:1])
        counters['combos'] += 1
        counters['owner_' + combo[1]] += 1
        nontriv.add(small_hash(list(combo)))
        if len(samples) < 1:
            samples.append({'combo': list(combo)})
    return {'evaluations': n, 'nontrivial': nontriv, 'samples': samples, 'counters': counters, 'failures': fails, 'exhaustive': True}


def replay(case):
    if 'race' in case:
        return check_race(*case['race'])[0]
    if 'race_multi' in case:
        # several recorded schedules of one finding (line-level decision numbers shift with any change of the library)
        for m, o, spec in case['race_multi']:
            fs, _info = check_race(m, o, spec)
            if fs:
                for f in fs:
                    f['case'] = case
                return fs
        return []
    if 'race_sweep' in case:
        # schedule-robust witness: every single line-level preemption of the (method, owner) race
        m, o = case['race_sweep']
        _f, info = check_race(m, o, {'preempt': [], 'lines': True})
        for i in range(1, info['decisions'] + 2):
            fs, _info = check_race(m, o, {'preempt': [[i, 0]], 'lines': True})
            if fs:
                for f in fs:
                    f['case'] = case
                return fs
        return []
    if case['combo'] == ['<coverage>']:
        missing = [m for m in public_methods() if m not in METHODS]
        return [failure('C17.not_fenced', 'public builder methods not covered: %s' % missing, case, '')] if missing else []
    return check_combo(tuple(case['combo']))


LEVEL_TEXT = ('The sequential quantifier (method x builder kind x owner outcome x timing x target) is finite and enumerated '
              'completely on every run with a twin-run oracle; the racing straggler is explored by the deterministic scheduler '
              'under a preemption bound.')
LEVEL_NOTE = ('Trusted: the twin comparison. The racing part owns the schedule at the library\'s lock operations and file-system calls '
              '(module-global interposition) and, in line mode (sys.settrace), at every executed line of library code: every single '
              'preemption is enumerated, pairs are drawn (250 per (method, owner) in quick, 6000 in thorough) from the run as '
              'preempted by the first one; three or more preemptions are not explored.')
