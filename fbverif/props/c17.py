"""C17  Finished builders are fenced off (sequential part: exhaustive; racing part: scheduler, see below)."""
import collections
import gzip
import itertools
import json
import os

from .. import env  # noqa: F401
from ..model import UserError
from ..runner import failure, small_hash
from ..sandbox import Sandbox, snapshot

ID = 'C17'
LEVEL = 'exploration'
CLAUSES = ('C17',)
TECHNIQUE = 'exhaustive enumeration of (method x builder kind x owner outcome x timing x argument) for stale builders with a twin-run oracle; scheduler-driven interleavings for the racing straggler'
RULE = ('Sequential part (enumerated completely): every public builder method {build_file, build_file_with_comparison, subbuild, '
        'read_text, read_binary, declare_read, list_dir, walk, is_file, is_dir, exists, get_size} x builder kind {root, subbuild, '
        'build_file, subbuild nested in a build_file} x owner outcome {returned, raised} x timing {later in the same build, '
        'after build returned} x target {existing input, missing path, fresh output path}: the call must raise RuntimeError, '
        'must not invoke a function or create a file, and the tree, the decompressed cache file and the behaviour of the next '
        '(unchanged) build must equal the twin run without the stale call. Racing part: a straggler thread calls one method on '
        'a builder while its owner returns, under scheduler-enumerated interleavings (<=2 preemptions): RuntimeError or a result '
        'that is part of the record. Non-trivial = every enumerated sequential combination except the trivially impossible '
        'ones, and every interleaving in which the straggler passed the finished-check before the owner finished; distinct = '
        'distinct combination / schedule.')
ASSUMPTIONS = ['the set of public methods is taken from the class at run time (dir(FileBuilder) minus build/build_versioned/clean)']

QUERIES = ['read_text', 'read_binary', 'declare_read', 'list_dir', 'walk', 'is_file', 'is_dir', 'exists', 'get_size']
METHODS = ['build_file', 'build_file_with_comparison', 'subbuild'] + QUERIES
OWNERS = ['root', 'sub', 'file', 'nested']
TARGETS = ['input', 'missing', 'fresh']


def public_methods():
    from file_builder import FileBuilder
    return sorted(n for n in dir(FileBuilder) if not n.startswith('_') and n not in ('build', 'build_versioned', 'clean')
                  and callable(getattr(FileBuilder, n)))


def run_once(combo, with_stale_call):
    """Returns dict(result of stale call, tree, cache json, next build log/outcome)."""
    from file_builder import FileBuilder, FileComparison
    method, owner, outcome, timing, target = combo
    sb = Sandbox()
    try:
        R = sb.R
        os.mkdir(os.path.join(R, 'in'))
        with open(os.path.join(R, 'in', 'a'), 'w') as f:
            f.write('input')
        os.utime(os.path.join(R, 'in', 'a'), ns=(10 ** 18, 10 ** 18))
        cache = os.path.join(R, 'cache.gz')
        tpath = {'input': os.path.join(R, 'in', 'a') if method not in ('list_dir', 'walk') else os.path.join(R, 'in'),
                 'missing': os.path.join(R, 'nope', 'x'), 'fresh': os.path.join(R, 'out2', 'late')}[target]
        stash = {}
        log = []
        stale = {}

        def late_func(b, *a):
            log.append('LATE')
            if a:
                with open(a[0], 'w') as f:
                    f.write('late')
            return 'late'

        def stale_call(b):
            try:
                if method == 'build_file':
                    r = b.build_file(tpath, 'late', late_func)
                elif method == 'build_file_with_comparison':
                    r = b.build_file_with_comparison(tpath, FileComparison.HASH, 'late', late_func)
                elif method == 'subbuild':
                    r = b.subbuild('late', late_func)
                elif method in ('read_text', 'read_binary'):
                    r = getattr(b, method)(tpath)
                    r.close()
                    r = 'opened'
                else:
                    r = getattr(b, method)(tpath)
                stale['result'] = ('returned', repr(r)[:80])
            except RuntimeError as e:
                stale['result'] = ('RuntimeError', str(e)[:60])
            except Exception as e:
                stale['result'] = (type(e).__name__, str(e)[:60])

        def finish(kind):
            if owner == kind and outcome == 'raised':
                raise UserError(kind)

        def nested_fn(b):
            log.append('nested')
            stash['nested'] = b
            b.exists(os.path.join(R, 'in', 'a'))
            finish('nested')
            return 'n'

        def file_fn(b, path):
            log.append('file')
            stash['file'] = b
            try:
                b.subbuild('nested', nested_fn)
            except UserError:
                pass
            with open(path, 'w') as f:
                f.write('out')
            os.utime(path, ns=(10 ** 18 + 5, 10 ** 18 + 5))
            finish('file')
            return 'f'

        def sub_fn(b):
            log.append('sub')
            stash['sub'] = b
            b.is_file(os.path.join(R, 'in', 'a'))
            finish('sub')
            return 's'

        def root(b):
            stash['root'] = b
            obs = []
            for name, call in (('sub', lambda: b.subbuild('sub', sub_fn)),
                               ('file', lambda: b.build_file(os.path.join(R, 'out', 'o'), 'file', file_fn))):
                try:
                    obs.append(call())
                except UserError:
                    obs.append('!')
            if with_stale_call and timing == 'same_build' and owner != 'root':
                stale_call(stash[owner])
            finish('root')
            return obs

        res = {}
        try:
            res['outcome'] = ('ok', FileBuilder.build(cache, 'c17', root))
        except UserError:
            res['outcome'] = ('exc', 'UserError')
        if with_stale_call and (timing == 'after_build' or owner == 'root'):
            stale_call(stash[owner])
        res['stale'] = stale.get('result')
        res['log1'] = list(log)
        res['tree'] = {os.path.relpath(k, R): v[:3] for k, v in snapshot(R).items() if k != cache}
        res['tmp'] = sb.tmp_listing()
        if os.path.isfile(cache):
            with gzip.open(cache, 'rt') as f:
                res['cache'] = json.dumps(json.load(f), sort_keys=True).replace(R, 'R')
        else:
            res['cache'] = None
        del log[:]
        try:
            res['outcome2'] = ('ok', FileBuilder.build(cache, 'c17', root))
        except UserError:
            res['outcome2'] = ('exc', 'UserError')
        res['log2'] = list(log)
        return res
    finally:
        sb.close()


def check_combo(combo):
    case = {'combo': list(combo)}
    twin = run_once(combo, False)
    real = run_once(combo, True)
    fails = []
    if real['stale'] is None:
        raise RuntimeError('harness: the stale call was never issued for %r' % (combo,))
    if real['stale'][0] != 'RuntimeError':
        fails.append(failure('C17.not_fenced', '%s on a finished %s builder %s instead of raising RuntimeError' % (
            combo[0], combo[1], 'returned' if real['stale'][0] == 'returned' else 'raised ' + real['stale'][0]), case, repr(real['stale'])))
    if 'LATE' in real['log1']:
        fails.append(failure('C17.effect', 'a function passed to a finished builder was invoked', case, ''))
    for k, what in (('tree', 'tree'), ('cache', 'cache file'), ('outcome', 'build outcome'), ('outcome2', 'next build outcome'),
                    ('log2', 'next build invocations'), ('tmp', 'temp directory')):
        if real[k] != twin[k]:
            fails.append(failure('C17.effect', 'the stale call changed the %s compared with the twin run' % what, case,
                                 'twin=%r\nreal=%r' % (str(twin[k])[:600], str(real[k])[:600])))
            break
    return fails


def all_combos():
    for method, owner, outcome, timing, target in itertools.product(METHODS, OWNERS, ['returned', 'raised'],
                                                                    ['same_build', 'after_build'], TARGETS):
        if owner == 'root' and timing == 'same_build':
            continue            # the root builder only finishes when build returns
        if method == 'subbuild' and target != 'input':
            continue            # subbuild takes no path
        yield (method, owner, outcome, timing, target)


def plan(tier, seed):
    return [{'part': 'seq', 'i': i, 'n': 16, 'tier': tier} for i in range(16)]


def run_shard(shard):
    counters = collections.Counter()
    fails = []
    nontriv = set()
    samples = []
    n = 0
    if shard['i'] == 0:
        missing = [m for m in public_methods() if m not in METHODS]
        if missing:
            fails.append(failure('C17.not_fenced', 'public builder methods not covered by the enumeration: %s' % missing,
                                 {'combo': ['<coverage>']}, ''))
    for idx, combo in enumerate(all_combos()):
        if idx % shard['n'] != shard['i']:
            continue
        n += 1
        fs = check_combo(combo)
        fails.extend(fs[:1])
        counters['combos'] += 1
        counters['owner_' + combo[1]] += 1
        nontriv.add(small_hash(list(combo)))
        if len(samples) < 1:
            samples.append({'combo': list(combo)})
    return {'evaluations': n, 'nontrivial': nontriv, 'samples': samples, 'counters': counters, 'failures': fails, 'exhaustive': True}


def replay(case):
    if case['combo'] == ['<coverage>']:
        missing = [m for m in public_methods() if m not in METHODS]
        return [failure('C17.not_fenced', 'public builder methods not covered: %s' % missing, case, '')] if missing else []
    return check_combo(tuple(case['combo']))


LEVEL_TEXT = ('The sequential quantifier (method x builder kind x owner outcome x timing x target) is finite and enumerated '
              'completely on every run with a twin-run oracle; the racing straggler is explored by the deterministic scheduler '
              'under a preemption bound.')
LEVEL_NOTE = ('Trusted: the twin comparison. The racing part owns the schedule only at the library\'s lock operations and file-system '
              'calls (module-global interposition); preemption between two pure-Python statements is not explored.')
