"""C08  At most one execution per output file and per subbuild key in a build (sequential part;
the two-thread part lives in the scheduler-based section below once interposition is available)."""
import copy

from hypothesis import strategies as st

from .. import gen, histprop
from ..dsl import iter_stmts
from ..histprop import step

ID = 'C08'
LEVEL = 'exploration'
CLAUSES = ('C08',)
TECHNIQUE = 'generated programs with planted duplicate keys (same level, nested, inside reused cached subtrees, guarded by file-system conditions) against the reference model; invocation counting; scheduler-driven two-thread races'
RULE = ('Each case = generated program into which 1-3 duplicate build_file/subbuild calls were planted (right after the first '
        'occurrence, in another function, nested below the first occurrence, or guarded by an exists() condition so that the '
        'duplicate appears/disappears between builds) run over a history with external changes, version changes and failing '
        'builds. Oracle: the reference model rejects the second request of a key with RuntimeError without running the '
        'function; outcome, tree and query answers of every build must equal the model; no key is invoked twice in one build; '
        'a caller whose record contains a setup-failed (rejected) call is never served from the cache. Non-trivial = a build '
        'containing a rejected duplicate while >=1 call of that build was served from the cache; distinct = distinct scenario JSON.')
ASSUMPTIONS = ['duplicates are identified by the model with the independent canonical JSON form of (name, args, kwargs) / the absolute path']
CFG = gen.cfg_with(probe_w=1, max_root=5, max_funcs=5, catch_p=0.9, root_catch_p=0.95, nonjson_p=0.0)
ADOPT = {'C01.outcome': 'C08.dup_outcome', 'C01.tree': 'C08.dup_outcome', 'C04.answer': 'C08.dup_outcome',
         'C01.stale_decision': 'C08.dup_outcome', 'C01.first_build': 'C08.dup_outcome'}


@st.composite
def program_strategy_c(draw, cfg, cache):
    prog = copy.deepcopy(draw(gen.program(cfg, cache)))
    names = list(prog['funcs'])
    blocks = [('root', prog['root'])] + [(n, prog['funcs'][n]['body']) for n in names]
    calls = [(bn, s) for bn, b in blocks for s in iter_stmts(b) if s[0] in ('bf', 'sb')]
    if not calls:
        return prog
    for _ in range(draw(st.integers(1, 3))):
        bn, s = draw(st.sampled_from(calls))
        dup = copy.deepcopy(s)
        dup[5 if dup[0] == 'bf' else 3] = draw(st.sampled_from([True, True, True, False]))
        callee = dup[2] if dup[0] == 'bf' else dup[1]
        # legal hosts: root, or functions with a smaller index than the callee (DAG)
        hosts = ['root'] + [n for n in names if names.index(n) < names.index(callee)]
        host = draw(st.sampled_from(hosts + [bn] if bn in hosts else hosts))
        body = prog['root'] if host == 'root' else prog['funcs'][host]['body']
        if draw(st.sampled_from(range(4))) == 0:
            masked = set(gen.cache_ancestors(cache))
            q = ['q', 'exists', draw(st.sampled_from([u for u in cfg['universe'] if u not in masked])), 'METADATA']
            dup = ['if', q, [dup], []] if draw(st.booleans()) else ['if', q, [], [dup]]
        body.insert(draw(st.integers(0, len(body))), dup)
    return prog


def program_strategy(cfg, cache):
    return program_strategy_c(cfg, cache)


def _has_dup(forest):
    for r in forest:
        for n in r.walk():
            if n.setup_failed and n.exc == 'RuntimeError':
                return True
    return False


def drive(draw, h, cfg):
    names = list(h.prog_rel['funcs'])
    univ = cfg['universe']
    for _ in range(draw(st.sampled_from([0, 0, 1, 2]))):
        step(h, histprop.draw_ext(draw, h, univ, bias=False))
    for i in range(draw(st.integers(2, 8))):
        if h.dead:
            break
        c = draw(st.sampled_from(range(16))) if i else 0
        if c < 9:
            step(h, histprop.draw_build(draw, h, names, fail_p=0.08))
            if getattr(h, 'mb', None) is not None and _has_dup(h.mb.forest):
                h.stats['c08_builds_with_rejected_duplicate'] += 1
                if h.rctx.hits:
                    h.flags.add('c08_nontrivial')
                    h.stats['c08_duplicate_with_cache_hit'] += 1
        elif c < 15:
            step(h, histprop.draw_ext(draw, h, univ))
        else:
            step(h, ['clean'])


def adopt(h, f):
    if f['clause'] not in ADOPT or getattr(h, 'mb', None) is None:
        return None
    if _has_dup(h.mb.forest) or _has_dup(h.mb.prev.forest):
        return ADOPT[f['clause']]
    return None


def nontrivial(h):
    return 'c08_nontrivial' in h.flags


histprop.install(globals(), 12000, 300000)


def vacuity(counters, evaluations, tier):
    if counters['c08_duplicate_with_cache_hit'] * 50 < counters['builds']:
        return 'duplicates inside builds with cache hits below 2%% of builds (%d of %d)' % (
            counters['c08_duplicate_with_cache_hit'], counters['builds'])
    return None


LEVEL_TEXT = ('Randomised exploration of duplicate placements against the reference model, with invocation counting per key; '
              'covers same level / nested / inside reused cached subtrees / first occurrence cached, rebuilt, failed or '
              'setup-failed, and duplicates that appear or disappear between builds.')
LEVEL_NOTE = ('Trusted: the reference model\'s duplicate rule (a key is claimed by a started, finished or failed call, not by a '
              'setup failure). The two-thread race of the same key is explored by the deterministic scheduler (see DESIGN.md C08/C09).')
