"""C08  At most one execution per output file and per subbuild key in a build (sequential part;
the two-thread part lives in the scheduler-based section below once interposition is available)."""
import copy

from hypothesis import strategies as st

from .. import gen, histprop
from ..dsl import iter_stmts
from ..histprop import step

ID = 'C08'
LEVEL = 'exploration'
CLAUSES = ('C08',)
TECHNIQUE = 'generated programs with planted duplicate keys (same level, nested, inside reused cached subtrees, guarded by file-system conditions) against the reference model; invocation counting; scheduler-driven two-thread races'
RULE = ('Each case = generated program into which 1-3 duplicate build_file/subbuild calls were planted (right after the first '
        'occurrence, in another function, nested below the first occurrence, or guarded by an exists() condition so that the '
        'duplicate appears/disappears between builds) run over a history with external changes, version changes and failing '
        'builds. Oracle: the reference model rejects the second request of a key with RuntimeError without running the '
        'function; outcome, tree and query answers of every build must equal the model; no key is invoked twice in one build; '
        'a caller whose record contains a setup-failed (rejected) call is never served from the cache. Non-trivial = a build '
        'containing a rejected duplicate while >=1 call of that build was served from the cache; distinct = distinct scenario JSON.')
ASSUMPTIONS = ['duplicates are identified by the model with the independent canonical JSON form of (name, args, kwargs) / the absolute path']
CFG = gen.cfg_with(probe_w=1, max_root=5, max_funcs=5, catch_p=0.9, root_catch_p=0.95, nonjson_p=0.0, kwargs_p=0.2, alt_roots_p=0.3)
ADOPT = {'C01.outcome': 'C08.dup_outcome', 'C01.tree': 'C08.dup_outcome', 'C04.answer': 'C08.dup_outcome',
         'C01.stale_decision': 'C08.dup_outcome', 'C01.first_build': 'C08.dup_outcome'}


@st.composite
def program_strategy_c(draw, cfg, cache):
    prog = copy.deepcopy(draw(gen.program(cfg, cache)))
    names = list(prog['funcs'])
    blocks = [('root', prog['root'])] + [(n, prog['funcs'][n]['body']) for n in names]
    calls = [(bn, s) for bn, b in blocks for s in iter_stmts(b) if s[0] in ('bf', 'sb')]
    if not calls:
        return prog
    for _ in range(draw(st.integers(1, 3))):
        bn, s = draw(st.sampled_from(calls))
        dup = copy.deepcopy(s)
        dup[5 if dup[0] == 'bf' else 3] = draw(st.sampled_from([True, True, True, False]))
        callee = dup[2] if dup[0] == 'bf' else dup[1]
        # legal hosts: root, or functions with a smaller index than the callee (DAG)
        hosts = ['root'] + [n for n in names if names.index(n) < names.index(callee)]
        host = draw(st.sampled_from(hosts + [bn] if bn in hosts else hosts))
        body = prog['root'] if host == 'root' else prog['funcs'][host]['body']
        if draw(st.sampled_from(range(4))) == 0:
            masked = set(gen.cache_ancestors(cache))
            q = ['q', 'exists', draw(st.sampled_from([u for u in cfg['universe'] if u not in masked])), 'METADATA']
            dup = ['if', q, [dup], []] if draw(st.booleans()) else ['if', q, [], [dup]]
        body.insert(draw(st.integers(0, len(body))), dup)
    return prog


@st.composite
def dup_across_builds_program(draw, cfg, cache):
    """A key that one build requests only inside a cacheable caller and the next build (root variant) also requests
    directly - before or after that caller: the duplicate is implied by the reuse of the caller's record.  The first
    occurrence succeeds or fails (caught)."""
    masked = set(gen.cache_ancestors(cache))
    univ = [u for u in cfg['universe'] if u not in masked and u != cache and not any(v.startswith(u + '/') for v in cfg['universe'])]
    kind = draw(st.sampled_from(['bf', 'bf', 'sb']))
    fbody = draw(st.sampled_from([[['write']], [['write'], ['raise']], [['raise']], []])) if kind == 'bf' else \
        draw(st.sampled_from([[], [['raise']], [['q', 'exists', draw(st.sampled_from(univ)), 'METADATA']]]))
    funcs = {'f': {'kind': 'file' if kind == 'bf' else 'sub', 'body': fbody}}
    call = ['bf', draw(st.sampled_from(univ)), 'f', [], draw(st.sampled_from(cfg['cmp'])), True] if kind == 'bf' else ['sb', 'f', [1], True]
    gbody = [copy.deepcopy(call)]
    if draw(st.booleans()):
        gbody.append(['q', draw(st.sampled_from(['exists', 'is_file', 'list_dir'])), draw(st.sampled_from(univ + [''])), 'METADATA'])
    funcs['g'] = {'kind': 'sub', 'body': gbody}
    g_call = ['sb', 'g', [], True]
    if draw(st.booleans()):
        funcs['w'] = {'kind': 'sub', 'body': [g_call]}
        g_call = ['sb', 'w', [], True]
    root = [g_call]
    alts = [[copy.deepcopy(call), g_call], [g_call, copy.deepcopy(call)]]
    if draw(st.booleans()):
        root, alts = alts[0], [root, alts[1]]
    return {'root': root, 'funcs': funcs, 'universe': list(cfg['universe']), 'alt_roots': alts}


def program_strategy(cfg, cache):
    return gen.weighted([(5, program_strategy_c(cfg, cache)), (1, dup_across_builds_program(cfg, cache))])


def _has_dup(forest):
    for r in forest:
        for n in r.walk():
            if n.setup_failed and n.exc == 'RuntimeError':
                return True
    return False


def drive(draw, h, cfg):
    names = list(h.prog_rel['funcs'])
    univ = cfg['universe']
    for _ in range(draw(st.sampled_from([0, 0, 1, 2]))):
        step(h, histprop.draw_ext(draw, h, univ, bias=False))
    for i in range(draw(st.integers(2, 8))):
        if h.dead:
            break
        c = draw(st.sampled_from(range(16))) if i else 0
        if c < 9:
            step(h, histprop.draw_build(draw, h, names, fail_p=0.08))
            if getattr(h, 'mb', None) is not None and _has_dup(h.mb.forest):
                h.stats['c08_builds_with_rejected_duplicate'] += 1
                if h.rctx.hits:
                    h.flags.add('c08_nontrivial')
                    h.stats['c08_duplicate_with_cache_hit'] += 1
        elif c < 15:
            step(h, histprop.draw_ext(draw, h, univ))
        else:
            step(h, ['clean'])


def adopt(h, f):
    if f['clause'] not in ADOPT or getattr(h, 'mb', None) is None:
        return None
    if _has_dup(h.mb.forest) or _has_dup(h.mb.prev.forest):
        return ADOPT[f['clause']]
    return None


def nontrivial(h):
    return 'c08_nontrivial' in h.flags


histprop.install(globals(), 10000, 300000)
_seq_plan, _seq_run_shard = plan, run_shard      # noqa: F821  (defined by install)


# --------------------------------------------------------------------------------------------------
# two threads issuing the same key (scheduler-driven)
# --------------------------------------------------------------------------------------------------

RACE_INPUTS = ['in/a']
RACE_UNIV = gen.make_universe((), 0, ('in/a', 'o/x', 'o/d/x', 'o/d/e/x', 'o/d/n'))
RACE_CFG = gen.cfg_with(universe=RACE_UNIV, caches=['cache.gz'])


@st.composite
def race_program(draw, cfg, cache):
    kind = draw(st.sampled_from(['bf', 'bf', 'sb']))
    path = draw(st.sampled_from(['o/x', 'o/d/x', 'o/d/e/x']))
    body = []
    if draw(st.booleans()):
        body.append(['q', draw(st.sampled_from(['read_text', 'exists', 'declare_read'])), 'in/a', draw(st.sampled_from(['METADATA', 'HASH']))])
    funcs = {}
    if kind == 'bf':
        if draw(st.sampled_from(range(3))) == 0:
            funcs['inner'] = {'kind': 'file', 'body': [['write']]}
            body.append(['bf', 'o/d/n', 'inner', [], 'METADATA', True])
        body.append(['write'])
        if draw(st.sampled_from(range(5))) == 0:
            body.append(['raise'])
        funcs['f'] = {'kind': 'file', 'body': body}
        call = ['bf', path, 'f', [1], draw(st.sampled_from(['METADATA', 'HASH'])), True]
    else:
        if draw(st.sampled_from(range(5))) == 0:
            body.append(['raise'])
        funcs['f'] = {'kind': 'sub', 'body': body}
        call = ['sb', 'f', [1, 'k'], True]
    t0 = [copy.deepcopy(call)]
    t1 = [copy.deepcopy(call)]
    placement = draw(st.sampled_from(['same', 'same', 'nested', 'reuse']))
    alt_roots = None
    if placement == 'reuse':
        # an earlier build (root variant 1) caches wrap -> f; in the race one task reuses wrap inside outer (which catches)
        # while the other requests f directly; a later build (root variant 2) requests outer alone
        inner = copy.deepcopy(call)
        inner[-1] = draw(st.booleans())
        if draw(st.booleans()):
            # the shared function fails (caught inside wrap, so that wrap's record stays reusable) and has a scheduling
            # point inside: the competitor can be *in progress* while the other task validates wrap's record
            fb = funcs['f']['body']
            if not any(s_[0] == 'q' for s_ in fb):
                fb.insert(0, ['q', 'exists', 'in/a', 'METADATA'])
            if not any(s_[0] == 'raise' for s_ in fb):
                fb.append(['raise'])
            inner[-1] = True
        funcs['wrap'] = {'kind': 'sub', 'body': [inner]}
        funcs['outer'] = {'kind': 'sub', 'body': [['sb', 'wrap', [], True]]}
        t1 = [['sb', 'outer', [], True]]
        alt_roots = [[['sb', 'wrap', [], True]], [['sb', 'outer', [], True]]]
    elif placement == 'nested':
        funcs['wrap'] = {'kind': 'sub', 'body': [copy.deepcopy(call)]}
        t1 = [['sb', 'wrap', [], True]]
    elif placement == 'after' and kind == 'bf':
        t0.append(['q', draw(st.sampled_from(['is_file', 'read_binary', 'get_size'])), path, 'HASH'])
    if kind == 'bf' and placement == 'same' and draw(st.sampled_from(range(3))) == 0:
        # same path, other arguments: still one key per build, but only one of the two calls can match a cached record
        t1[0][3] = [2]
    root = [['par', [t0, t1]]]
    if kind == 'bf' and draw(st.booleans()):
        root.append(['q', 'read_binary', path, 'HASH'])
    prog = {'root': root, 'funcs': funcs, 'universe': list(cfg['universe'])}
    if alt_roots:
        prog['alt_roots'] = alt_roots
    return prog


def race_drive(draw, h, cfg):
    h.nt_keys = []
    step(h, ['write', 'in/a', draw(st.integers(0, 2))])
    vers = {}
    reuse = 'outer' in h.prog_rel['funcs']
    shape = draw(st.sampled_from(['first', 'first', 'rebuild', 'changed', 'changed']))
    if reuse:
        step(h, ['root', 1])
        step(h, ['build', vers, None, None, {'sched': {'preempt': []}}])
        step(h, ['root', 0])
        h.stats['c08_race_reuse_scenarios'] += 1
        if draw(st.booleans()):
            tgt = [s_[1] for blk in [f_['body'] for f_ in h.prog_rel['funcs'].values()]
                   for s_ in iter_stmts(blk) if s_[0] == 'bf' and s_[2] == 'f']
            step(h, draw(st.sampled_from([['write', 'in/a', 1]] + ([['rm', tgt[0]], ['write', tgt[0], 0], ['touch', tgt[0]]] if tgt else []))))
    elif shape != 'first':
        step(h, ['build', vers, None, None, {'sched': {'preempt': []}}])
        if shape == 'changed':
            # a change that makes the racing build re-execute the shared function (mostly aimed at its own output)
            tgt = [s_[1] for blk in [h.prog_rel['root']] + [f_['body'] for f_ in h.prog_rel['funcs'].values()]
                   for s_ in iter_stmts(blk) if s_[0] == 'bf' and s_[2] == 'f']
            opts_ = [['write', 'in/a', 1], ['touch', 'in/a']]
            if tgt:
                opts_ += [['rm', tgt[0]], ['rm', tgt[0]], ['write', tgt[0], 0], ['touch', tgt[0]]]
            else:
                opts_ += [['rm', 'o/x'], ['write', 'o/d/e/x', 0]]
            step(h, draw(st.sampled_from(opts_)))
    if h.dead:
        return
    h.apply(['save'])
    # a third of the scenarios: the root function raises after the parallel part, so every racing build is rolled back
    fail_at = draw(st.sampled_from([None, None, 0]))
    if fail_at is not None:
        h.stats['c08_race_scenarios_rolled_back'] += 1
    step(h, ['build', vers, fail_at, None, {'sched': {'preempt': []}}])
    if h.dead:
        return
    N = ((h.rctx.extra.get('sched_runs') or [{'decisions': 0}])[0])['decisions']
    h.stats['c08_race_scenarios'] += 1
    specs = []
    for first in (0, 1):
        specs.append({'preempt': [], 'first': first})
        for i in range(1, N + 12):
            specs.append({'preempt': [[i, 0]], 'first': first})
    pairs = [(i, j) for i in range(1, N + 8) for j in range(i + 1, N + 16)]
    budget = cfg.get('pair_budget', 150)
    if len(pairs) > budget:
        pairs = draw(st.lists(st.sampled_from(pairs), min_size=budget, max_size=budget, unique=True))
    else:
        h.stats['c08_race_pairs_exhaustive'] += 1
    for i, j in pairs:
        specs.append({'preempt': [[i, 0], [j, 0]], 'first': draw(st.integers(0, 1))})
    # line-level schedules: every executed line of library code is a scheduling point, so the few lines between a
    # duplicate check and the reservation that follows it are reachable even if no lock operation separates them
    h.apply(['restore'])
    step(h, ['build', vers, fail_at, None, {'sched': {'preempt': [], 'lines': True}}])
    if h.dead:
        return
    NL = ((h.rctx.extra.get('sched_runs') or [{'decisions': 0}])[0])['decisions']
    if not h.dead:
        step(h, ['clean'])
    lb = cfg.get('line_budget', 60)
    points = list(range(1, NL + 2))
    if len(points) > lb:
        points = draw(st.lists(st.sampled_from(points), min_size=lb, max_size=lb, unique=True))
    else:
        h.stats['c08_race_lines_exhaustive'] += 1
    for i in points:
        specs.append({'preempt': [[i, 0]], 'first': draw(st.integers(0, 1)), 'lines': True})
    for spec in specs:
        if h.dead:
            return
        h.apply(['restore'])
        step(h, ['build', vers, fail_at, None, {'sched': spec}])
        h.stats['c08_race_runs'] += 1
        sr = (h.rctx.extra.get('sched_runs') or [{}])[0]
        if sr.get('switches', 0) > 0 or spec.get('first'):
            h.stats['c08_race_runs_interleaved'] += 1
            h.flags.add('c08_nontrivial')
            h.nt_keys.append(['race', spec])
        if not h.dead and (h.last.get('committed') or fail_at is not None):
            if reuse:
                # the follow-up build requests only the caller that caught the rejection (no duplicate any more)
                step(h, ['root', 2])
            step(h, ['build', vers, None, None, {'sched': {'preempt': []}}])
            if reuse:
                step(h, ['root', 0])
        if not h.dead:
            step(h, ['clean'])


class _RaceMod:
    """View of this module for the shared history driver with the race generator plugged in."""
    CLAUSES = CLAUSES
    CFG = RACE_CFG
    program_strategy = staticmethod(race_program)
    drive = staticmethod(race_drive)
    OPTS = {'par_any_order': True}

    @staticmethod
    def nontrivial(h):
        return 'c08_nontrivial' in h.flags

    @staticmethod
    def adopt(h, f):
        c = f['clause']
        return None if c.startswith('C08') else 'C08.race_' + c.replace('.', '_')


def plan(tier, seed):      # noqa: F811
    shards = _seq_plan(tier, seed)
    for sh in shards:
        sh['part'] = 'seq'
    n = 10 if tier == 'quick' else 250
    for i in range(16):
        shards.append({'part': 'race', 'seed': seed * 7001 + i, 'examples': n, 'tier': tier, 'i': i})
    return shards


def run_shard(shard):      # noqa: F811
    if shard.get('part') == 'race':
        res = histprop.run_history_shard(_RaceMod, shard)
        res['counters']['race_scenarios'] = res['evaluations']
        res['evaluations'] = int(res['counters'].get('c08_race_runs', 0))
        return res
    return _seq_run_shard(shard)


def replay(case):      # noqa: F811
    from ..harness import run_scenario
    from ..dsl import iter_stmts as _it
    is_race = any(s[0] == 'par' for s in _it(case['prog']['root']))
    return run_scenario(case, clauses=CLAUSES, adopt=_RaceMod.adopt if is_race else adopt)[0]


def shrink_candidates(case):      # noqa: F811
    steps = case['steps']
    idx = [i for i, s in enumerate(steps) if s[0] == 'restore']
    for i in idx:
        j = i + 1
        while j < len(steps) and steps[j][0] != 'restore':
            j += 1
        yield dict(case, steps=steps[:i] + steps[j:])
    yield from histprop.shrink_candidates(case)


def vacuity(counters, evaluations, tier):
    if counters['c08_duplicate_with_cache_hit'] * 50 < counters['builds']:
        return 'duplicates inside builds with cache hits below 2%% of builds (%d of %d)' % (
            counters['c08_duplicate_with_cache_hit'], counters['builds'])
    return None


LEVEL_TEXT = ('Randomised exploration of duplicate placements against the reference model, with invocation counting per key; '
              'covers same level / nested / inside reused cached subtrees / first occurrence cached, rebuilt, failed or '
              'setup-failed, and duplicates that appear or disappear between builds.')
LEVEL_NOTE = ('Trusted: the reference model\'s duplicate rule (a key is claimed by a started, finished or failed call, not by a '
              'setup failure). The two-thread race of the same key is explored by the deterministic scheduler (see DESIGN.md C08/C09).')
