"""C04  Virtual file-system view seen by build functions is the from-scratch view."""
from hypothesis import strategies as st

from .. import gen, histprop
from ..histprop import step

ID = 'C04'
LEVEL = 'exploration'
CLAUSES = ('C04',)
TECHNIQUE = 'differential query-by-query comparison with the reference model plus model-free metamorphic consistency checks on probe rounds'
RULE = ('Each case = probe-rich generated program (probe = all of is_file/is_dir/exists/list_dir/get_size/declare_read on every '
        'universe path plus top-down and bottom-up walk of the root; placed at the root between builder calls and inside '
        'nested functions before/after write and after caught nested failures) run over a history that leaves stale '
        'outputs, stale directories holding foreign files and swaps. Every answer (value or OSError subclass) the real '
        'build produces is compared with the model at the same program point (in about a third of the cases the real run asks with '
        'respelled paths - //, /./, x/../ through a missing component, trailing separator - which must change no answer); each probe round is also checked for '
        'mutual consistency without the model. Non-trivial = a case with a probe executed while >=1 output is in progress '
        'or has failed in this build and the previous build left >=1 stale output or directory; distinct = distinct scenario JSON.')
ASSUMPTIONS = [
    'latitude L1 (listing order compared sorted; walk ordering constraint checked separately), L2 (cache-only directories masked), L3 (size of a directory)',
    'queries on the cache file\'s ancestor directories are not generated (their appearance is unspecified)',
]
CFG = gen.cfg_with(probe_w=4, inner_probe=0.45, max_root=5, max_funcs=5, fail_after_nested_p=0.3, catch_p=0.9, call_w=4, alt_roots_p=0.25)


def program_strategy(cfg, cache):
    return gen.mixed_program(cfg, cache, patterns=2, general=3)


def drive(draw, h, cfg):
    names = list(h.prog_rel['funcs'])
    univ = cfg['universe']
    for _ in range(draw(st.integers(0, 3))):
        step(h, histprop.draw_ext(draw, h, univ, bias=False))
    for i in range(draw(st.integers(2, 8))):
        if h.dead:
            break
        c = draw(st.sampled_from(range(16))) if i else 0
        if c < 8:
            step(h, histprop.draw_build(draw, h, names, fail_p=0.1))
        elif c < 15:
            step(h, histprop.draw_ext(draw, h, univ))
        else:
            step(h, ['clean'])


def nontrivial(h):
    return 'c04_nontrivial' in h.flags


histprop.install(globals(), 8000, 200000)


def vacuity(counters, evaluations, tier):
    if counters['nontrivial_cases'] * 50 < evaluations:
        return 'non-trivial cases below 2%% (%d of %d)' % (counters['nontrivial_cases'], evaluations)
    if counters['c04_probe_rounds'] < evaluations:
        return 'fewer than one probe round per case'
    return None


LEVEL_TEXT = ('Randomised differential exploration: every query issued by executed user code is compared with the reference '
              'model at the same program point, and complete probe rounds are checked for internal consistency.')
LEVEL_NOTE = ('Trusted: the reference model\'s view computation (fbverif/model.py) for the differential part; the consistency '
              'part trusts nothing but the answers themselves. Queries inside functions that were served from the cache are '
              'by definition not executed and therefore not compared (their recorded answers are covered by C01/C05).')
