"""C03  Foreign files and directories are never modified or deleted."""
from hypothesis import strategies as st

from .. import gen, histprop
from ..histprop import step

ID = 'C03'
LEVEL = 'exploration'
CLAUSES = ('C03',)
TECHNIQUE = 'stateful history generation with planted foreign files; oracle = byte+mtime+inode snapshot of every unmanaged path before/after each API call'
RULE = ('Each case = generated program + history in which foreign files/directories are planted preferentially inside '
        'directories created by earlier builds, at former output positions and next to the cache file, interleaved with '
        'builds, failing builds, file<->directory swaps and clean. After every build/clean every regular file outside '
        '{cache file, paths passed to build_file in this call, outputs of the last committed build} must keep bytes, '
        'mtime_ns and inode (after a rolled-back build also the overwritten ones), and every directory that disappeared '
        'must have been recorded as created by the previous build and hold nothing foreign. Non-trivial = a history with a '
        'call that removed >=1 path while >=1 foreign file or directory sat inside a directory the previous build created '
        'or at a former output position; distinct = distinct scenario JSON.')
ASSUMPTIONS = [
    'the managed set is computed from the harness\'s own call log plus the model\'s record of the last committed build\'s outputs/created directories',
    'foreign files are planted between API calls only (documented obligation)',
]
CFG = gen.cfg_with(probe_w=1, max_root=5, alt_roots_p=0.3)


def program_strategy(cfg, cache):
    from hypothesis import strategies as _st
    return gen.weighted([(12, gen.program(cfg, cache)), (3, gen.ancestor_pattern_program(cfg, cache)),
                         (1, gen.inprogress_ancestor_program(cfg, cache))])


def drive_inprogress(draw, h, cfg):
    """Builds of the in-progress-ancestor pattern are outside the reference model's domain: only rolled-back builds are
    run (the root function raises at its end), with foreign files planted at the target and around it; the C03 clauses
    (snapshot based) are the only ones reported."""
    univ = cfg['universe']
    P = [s for s in h.prog_rel['root'] if s[2] == 'ipa0'][0][1]
    if draw(st.booleans()):
        # a committed build of the root variant without the pattern call: a cache and (maybe) an output exist
        step(h, ['root', 1])
        step(h, ['build', {}, None])
        step(h, ['root', 0])
    for _ in range(draw(st.integers(1, 3))):
        if h.dead:
            return
        if draw(st.sampled_from(range(4))):
            step(h, ['write', P, draw(st.integers(0, 2))])
        else:
            step(h, histprop.draw_ext(draw, h, univ))
    h.stats['c03_inprogress_ancestor_builds'] += 1
    h.flags.add('c03_inprogress')
    step(h, ['build', {}, 0])


def plant_paths(h, cfg):
    """Relative paths at which planting is interesting."""
    out = []
    lc = h.last_committed
    univ = cfg['universe']
    if lc:
        created = {h.relp(d) for d in lc['created'] if d.startswith(h.R + '/')}
        outs = {h.relp(p) for p in lc['outputs']}
        for u in univ:
            parent = u.rsplit('/', 1)[0] if '/' in u else ''
            if parent in created or u in outs or u in created:
                out.append(u)
    for p in sorted(h.ever_outputs):
        out.append(h.relp(p))
    return [p for p in out if not h.protected(h.sb.ap(p))]


def drive(draw, h, cfg):
    names = list(h.prog_rel['funcs'])
    univ = cfg['universe']
    if 'ipa0' in h.prog_rel['funcs']:
        return drive_inprogress(draw, h, cfg)
    for _ in range(draw(st.integers(0, 2))):
        step(h, histprop.draw_ext(draw, h, univ, bias=False))
    step(h, histprop.draw_build(draw, h, names, fail_p=0.05))
    for _ in range(draw(st.integers(1, 5))):
        if h.dead:
            break
        # plant 1-2 foreign things, preferably where the library has ownership claims nearby
        for _ in range(draw(st.integers(1, 2))):
            pp = plant_paths(h, cfg)
            if pp and draw(st.sampled_from(range(4))) < 3:
                p = draw(st.sampled_from(pp))
                kind = draw(st.sampled_from(['write', 'write', 'mkdir', 'swap']))
                step(h, [kind, p, draw(st.integers(0, 2))] if kind == 'write' else [kind, p])
            else:
                step(h, histprop.draw_ext(draw, h, univ))
        # then an API call that may remove things
        c = draw(st.sampled_from(['build', 'build', 'fail', 'clean', 'clean', 'rm_cache+build', 'versions']))
        if c == 'build':
            step(h, histprop.draw_build(draw, h, names, fail_p=0.0, ver_p=0.0))
        elif c == 'fail':
            step(h, histprop.draw_build(draw, h, names, fail_p=1.0))
        elif c == 'clean':
            step(h, ['clean'])
            if not h.dead and draw(st.booleans()):
                step(h, histprop.draw_build(draw, h, names, fail_p=0.0))
        elif c == 'rm_cache+build':
            step(h, ['rm_cache'])
            step(h, histprop.draw_build(draw, h, names, fail_p=0.1))
        else:
            step(h, histprop.draw_build(draw, h, names, fail_p=0.1, ver_p=1.0))


def nontrivial(h):
    return 'c03_nontrivial' in h.flags


histprop.install(globals(), 12000, 300000)


def vacuity(counters, evaluations, tier):
    if counters['nontrivial_cases'] * 50 < evaluations:
        return 'non-trivial cases below 2%% (%d of %d)' % (counters['nontrivial_cases'], evaluations)
    return None


LEVEL_TEXT = ('Randomised exploration of histories with planted foreign content; the oracle is independent of the tree '
              'prediction of the reference model (pure before/after snapshot comparison incl. inode, so move-aside-and-restore '
              'of the wrong file is visible).')
LEVEL_NOTE = ('Trusted: the snapshot code and the managed-set computation (harness call log + model record of outputs/created '
              'directories). Small-scope universe of 16 paths.')
