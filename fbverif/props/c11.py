"""C11  Values cross the API by value (no aliasing with cache records)."""
import collections
import copy
import gzip
import json
import os

from hypothesis import strategies as st

from .. import env  # noqa: F401
from .. import hyp
from ..runner import failure, small_hash
from ..sandbox import Sandbox

ID = 'C11'
LEVEL = 'exploration'
CLAUSES = ('C11',)
TECHNIQUE = 'twin-run metamorphic test: the same generated program with and without in-place mutations of every value-carrying API edge; outcomes, invocation logs and decompressed cache JSON of three consecutive builds must be identical'
RULE = ('Each case = a generated program of 1-4 cacheable operations (subbuild / build_file, nested one level, returning nested '
        'list/dict values; functions that call list_dir / walk on a prepared input tree) plus 1-3 in-place mutations, each '
        'bound to one value-carrying edge: arguments received by the callee, the caller\'s own argument objects after the '
        'call, the value returned to the caller (fresh in build 1, served from the cache in builds 2-3), the object the '
        'callee returned (kept and mutated afterwards), the list returned by list_dir, the tuples/lists returned by walk '
        '(incl. pruning subdirectory lists); mutation ops: append, pop, clear, setitem, delitem, edit of a nested container. '
        'User code copies what it observes before mutating, so a correct library makes the mutated run indistinguishable '
        'from its twin without mutations: return values and invocation logs of builds 1-3 and the decompressed cache JSON '
        'after each build are compared. Non-trivial = a mutation that actually changed a non-empty container on an edge '
        'belonging to a committed cache record; distinct = distinct encoded case. Half of the querying functions repeat their '
        'list_dir/walk after the first result was edited and return both answers.')
ASSUMPTIONS = ['user code takes its observations (deep copies) before it mutates, so observations cannot differ for a by-value API']

EDGES = ['args_in_callee', 'args_caller_after', 'ret_to_caller', 'ret_obj_of_callee', 'list_dir_result', 'walk_result', 'nested_ret']
MOPS = ['append', 'pop', 'clear', 'setitem', 'delitem', 'nested']


def mutate(v, op):
    """Mutate container v in place; returns True if something changed."""
    target = v
    if op == 'nested':
        # first nested container
        stack = [v]
        found = None
        while stack and found is None:
            x = stack.pop(0)
            kids = list(x.values()) if isinstance(x, dict) else list(x) if isinstance(x, (list, tuple)) else []
            for k in kids:
                if isinstance(k, (list, dict)):
                    if x is not v or True:
                        found = k
                        break
            stack.extend(k for k in kids if isinstance(k, (list, dict, tuple)))
        if found is None:
            return False
        target, op = found, 'append'
    if isinstance(target, tuple):
        # walk tuples: mutate their list members
        for m in target:
            if isinstance(m, list):
                return mutate(m, op)
        return False
    if isinstance(target, list):
        if op == 'append':
            target.append('MUT')
            return True
        if op == 'pop' and target:
            target.pop()
            return True
        if op == 'clear' and target:
            target.clear()
            return True
        if op == 'setitem' and target:
            target[0] = 'MUT'
            return True
        if op == 'delitem' and target:
            del target[0]
            return True
        return False
    if isinstance(target, dict):
        if op in ('append', 'setitem'):
            target['MUT'] = 1
            return True
        if op in ('pop', 'delitem') and target:
            del target[next(iter(target))]
            return True
        if op == 'clear' and target:
            target.clear()
            return True
    return False


def shared_containers(v):
    """A JSON value is a tree: no list/dict object may occur at two positions of a value handed to user code."""
    seen = set()
    stack = [v]
    while stack:
        x = stack.pop()
        if isinstance(x, (list, dict)):
            if id(x) in seen:
                return True
            seen.add(id(x))
        if isinstance(x, dict):
            stack.extend(x.values())
        elif isinstance(x, (list, tuple)):
            stack.extend(x)
    return False


def norm_walk(w):
    return sorted([d, sorted(a), sorted(b)] for d, a, b in w)


def run_program(case, mutations_on):
    """Run builds 1..3 of the case; returns list of (outcome, log, cache_json) per build + mutation count."""
    from file_builder import FileBuilder
    sb = Sandbox()
    try:
        R = sb.R
        for d in ('in/sub', 'in/e'):
            os.makedirs(os.path.join(R, d))
        for f_ in ('in/a', 'in/b', 'in/sub/c'):
            with open(os.path.join(R, f_), 'w') as fh:
                fh.write(f_)
            os.utime(os.path.join(R, f_), ns=(10 ** 18, 10 ** 18))
        cache = os.path.join(R, 'cache.gz')
        muts = {(m['op_index'], m['edge']): m['mop'] for m in case['muts']} if mutations_on else {}
        applied = [0]
        results = []
        for build_no in (1, 2, 3):
            log = []
            kept = {}
            aliasing = []

            def maybe(i, edge, value):
                mop = muts.get((i, edge))
                if mop is not None and (case.get('when', 0) in (0, build_no)):
                    if mutate(value, mop):
                        applied[0] += 1

            def make_fn(i, op):
                def fn(b, *args, **kwargs):
                    log.append(i)
                    if op['kind'] == 'file':
                        path, args = args[0], args[1:]
                        with open(path, 'w') as fh:
                            fh.write('o%d' % i)
                        os.utime(path, ns=(10 ** 18 + i, 10 ** 18 + i))
                    seen_args = copy.deepcopy([list(args), kwargs])
                    for a in list(args) + list(kwargs.values()):
                        if isinstance(a, (list, dict)):
                            maybe(i, 'args_in_callee', a)
                    extra = None
                    if op.get('query') == 'list_dir':
                        l = b.list_dir(os.path.join(R, 'in'))
                        if shared_containers(l):
                            aliasing.append('list_dir result')
                        extra = sorted(l)
                        maybe(i, 'list_dir_result', l)
                    elif op.get('query') == 'walk':
                        w = b.walk(os.path.join(R, 'in'))
                        if shared_containers(w):
                            aliasing.append('walk result')
                        extra = norm_walk(w)
                        if w:
                            mop = muts.get((i, 'walk_result'))
                            if mop is not None and (case.get('when', 0) in (0, build_no)):
                                tgt = w if mop in ('pop', 'clear', 'delitem') and case.get('walk_outer') else w[0]
                                if mutate(tgt, mop):
                                    applied[0] += 1
                    if op.get('requery') and op.get('query'):
                        # the same query again on the same builder, after the first result was (possibly) edited in place
                        again = b.list_dir(os.path.join(R, 'in')) if op['query'] == 'list_dir' else b.walk(os.path.join(R, 'in'))
                        extra = [extra, sorted(again) if op['query'] == 'list_dir' else norm_walk(again)]
                    nested = None
                    if op.get('child') is not None:
                        ch = op['child']
                        r = b.subbuild('child%d' % i, make_fn(100 + i, ch), *copy.deepcopy(ch['args']), **copy.deepcopy(ch.get('kwargs', {})))
                        nested = copy.deepcopy(r)
                        maybe(i, 'nested_ret', r)
                    if op.get('raw_ret'):
                        # the function returns the bare value (e.g. a flat list of strings) and keeps a reference to it
                        ret = copy.deepcopy(op['ret'])
                    else:
                        ret = {'ret': copy.deepcopy(op['ret']), 'args': seen_args, 'extra': extra, 'nested': nested}
                    kept[i] = ret
                    return ret
                return fn

            def root(b):
                obs = []
                for i, op in enumerate(case['ops']):
                    args = copy.deepcopy(op['args'])
                    kwargs = copy.deepcopy(op.get('kwargs', {}))
                    if op['kind'] == 'file':
                        r = b.build_file(os.path.join(R, 'out', 'o%d' % i), 'f%d' % i, make_fn(i, op), *args, **kwargs)
                    else:
                        r = b.subbuild('f%d' % i, make_fn(i, op), *args, **kwargs)
                    if shared_containers(r):
                        aliasing.append('value returned by build_file/subbuild')
                    obs.append(copy.deepcopy(r))
                    if args != op['args'] or kwargs != op.get('kwargs', {}):
                        obs.append('CALLER-ARGS-CHANGED')
                    for a in args + list(kwargs.values()):
                        if isinstance(a, (list, dict)):
                            maybe(i, 'args_caller_after', a)
                    maybe(i, 'ret_to_caller', r)
                    if i in kept:
                        maybe(i, 'ret_obj_of_callee', kept[i])
                return obs

            out = FileBuilder.build(cache, 'c11', root)
            with gzip.open(cache, 'rt') as fh:
                cj = json.load(fh)
            results.append((out, list(log), cj, list(aliasing)))
        return results, applied[0]
    finally:
        sb.close()


def run_case(case):
    import traceback
    try:
        twin, _ = run_program(case, False)
        mutated, applied = run_program(case, True)
    except Exception as e:
        tb = traceback.format_exc()
        if 'file_builder/' not in tb:
            raise
        return [failure('C11.unexpected_exception', 'a build raised %s' % type(e).__name__, case, tb[-1500:])], 0
    fails = []
    for k, res in enumerate(twin, 1):
        if res[3]:
            fails.append(failure('C11.internal_aliasing', 'a %s holds one container object at two positions' % res[3][0], case, ''))
            return fails, applied
    for k, (t, m) in enumerate(zip(twin, mutated), 1):
        tj = json.dumps(t[2], sort_keys=True).replace(_top(t), 'R')
        mj = json.dumps(m[2], sort_keys=True).replace(_top(m), 'R')
        if _strip(t[0], t) != _strip(m[0], m):
            fails.append(failure('C11.return_value', 'build %d returns a different value than its twin without mutations' % k, case,
                                 'twin=%r\nmutated=%r' % (_strip(t[0], t), _strip(m[0], m))))
            break
        if t[1] != m[1]:
            fails.append(failure('C11.reexecution', 'build %d invokes %s, its twin without mutations %s' % (k, m[1], t[1]), case, ''))
            break
        if tj != mj:
            fails.append(failure('C11.cache_record', 'the cache file written by build %d differs from the twin\'s' % k, case,
                                 _first_diff(tj, mj)))
            break
    return fails, applied


def _top(res):
    # the sandbox root differs between the two runs: find it in the cache JSON
    for d in res[2].get('createdDirs', []):
        i = d.find('/R/')
        if i >= 0:
            return d[:i + 2]
    for op in res[2].get('rootOperations', []):
        s = json.dumps(op)
        i = s.find('/R/')
        if i >= 0:
            j = s.rfind('"', 0, i)
            return s[j + 1:i + 2]
    return '\0'


def _strip(v, res):
    return json.loads(json.dumps(v).replace(_top(res), 'R'))


def _first_diff(a, b):
    for i, (x, y) in enumerate(zip(a, b)):
        if x != y:
            return 'twin: ...%s\nmutated: ...%s' % (a[max(0, i - 150):i + 150], b[max(0, i - 150):i + 150])
    return 'lengths differ: %d vs %d' % (len(a), len(b))


leaf = st.one_of(st.integers(0, 3), st.sampled_from(['s', 't']), st.none())
container = st.recursive(st.one_of(st.lists(leaf, min_size=1, max_size=3), st.dictionaries(st.sampled_from(['k', 'j']), leaf, min_size=1, max_size=2)),
                         lambda ch: st.one_of(st.lists(ch, min_size=1, max_size=2), st.dictionaries(st.sampled_from(['n']), ch, min_size=1, max_size=1)),
                         max_leaves=4)


# homogeneous flat values: the shapes a "this is already plain JSON" shortcut would single out
flat = st.one_of(st.lists(st.sampled_from(['s', 't', 'u']), max_size=3), st.lists(st.integers(0, 3), max_size=3),
                 st.dictionaries(st.sampled_from(['k', 'j']), st.sampled_from(['s', 't']), max_size=2),
                 st.lists(st.lists(st.sampled_from(['s', 't']), max_size=2), min_size=1, max_size=2))


def _w(pairs):
    from ..gen import weighted
    return weighted(pairs)


@st.composite
def cases(draw):
    ops = []
    for _ in range(draw(st.integers(1, 4))):
        op = {'kind': draw(st.sampled_from(['sub', 'sub', 'file'])),
              'args': draw(st.lists(st.one_of(container, leaf), max_size=2)),
              'kwargs': draw(st.dictionaries(st.sampled_from(['kw', 'opt']), _w([(2, container), (1, leaf)]), max_size=2)),
              'ret': draw(_w([(2, container), (1, leaf), (1, flat)])),
              'query': draw(st.sampled_from([None, None, 'list_dir', 'walk']))}
        if op['query'] and draw(st.booleans()):
            op['requery'] = True
        if draw(st.sampled_from(range(3))) == 0:
            op['raw_ret'] = True
            op['ret'] = draw(_w([(2, flat), (1, container)]))
            if draw(st.booleans()):
                op['args'] = [draw(flat)] + op['args'][:1]
        if draw(st.sampled_from(range(3))) == 0:
            op['child'] = {'kind': 'sub', 'args': draw(st.lists(container, max_size=1)), 'ret': draw(container), 'query': None,
                           'kwargs': draw(st.dictionaries(st.sampled_from(['kw']), container, max_size=1))}
        ops.append(op)
    muts = []
    for _ in range(draw(st.integers(1, 3))):
        i = draw(st.integers(0, len(ops) - 1))
        op = ops[i]
        edges = ['ret_to_caller', 'ret_obj_of_callee']
        if any(isinstance(a, (list, dict)) for a in list(op['args']) + list(op.get('kwargs', {}).values())):
            edges += ['args_in_callee', 'args_in_callee', 'args_caller_after']
        if op['query'] == 'list_dir':
            edges += ['list_dir_result'] * 3
        if op['query'] == 'walk':
            edges += ['walk_result'] * 3
        if op.get('child') is not None:
            edges += ['nested_ret'] * 2
        muts.append({'op_index': i, 'edge': draw(st.sampled_from(edges)), 'mop': draw(st.sampled_from(MOPS))})
    return {'ops': ops, 'muts': muts, 'when': draw(st.sampled_from([0, 0, 1, 2])), 'walk_outer': draw(st.booleans())}


def plan(tier, seed):
    per = 500 if tier == 'quick' else 12000
    return [{'seed': seed * 983 + i, 'examples': per, 'tier': tier} for i in range(16)]


def run_shard(shard):
    counters = collections.Counter()
    fails = []
    nontriv = set()
    samples = []
    n = [0]

    def body(case):
        n[0] += 1
        fs, applied = run_case(case)
        fails.extend(fs[:1])
        counters['mutations_applied'] += applied
        for m in case['muts']:
            counters['edge_' + m['edge']] += 1
        if applied:
            counters['nontrivial'] += 1
            nontriv.add(small_hash(case))
            if len(samples) < 2:
                samples.append(case)

    hyp.run(cases(), body, shard['examples'], shard['seed'], stats=counters)
    return {'evaluations': n[0], 'nontrivial': nontriv, 'samples': samples, 'counters': counters, 'failures': fails}


def replay(case):
    return run_case(case)[0]


def shrink_candidates(case):
    for i in range(len(case['muts'])):
        if len(case['muts']) > 1:
            yield dict(case, muts=case['muts'][:i] + case['muts'][i + 1:])
    for i in reversed(range(len(case['ops']))):
        if len(case['ops']) > 1 and not any(m['op_index'] == i for m in case['muts']):
            ms = [dict(m, op_index=m['op_index'] - (1 if m['op_index'] > i else 0)) for m in case['muts']]
            yield dict(case, ops=case['ops'][:i] + case['ops'][i + 1:], muts=ms)
    for i, op in enumerate(case['ops']):
        if op.get('child') is not None and not any(m['op_index'] == i and m['edge'] == 'nested_ret' for m in case['muts']):
            o2 = dict(op)
            o2.pop('child')
            yield dict(case, ops=case['ops'][:i] + [o2] + case['ops'][i + 1:])
        if (op['args'] or op.get('kwargs')) and not any(m['op_index'] == i and m['edge'].startswith('args') for m in case['muts']):
            yield dict(case, ops=case['ops'][:i] + [dict(op, args=[], kwargs={})] + case['ops'][i + 1:])
        if op.get('query') and not any(m['op_index'] == i and m['edge'] in ('list_dir_result', 'walk_result') for m in case['muts']):
            yield dict(case, ops=case['ops'][:i] + [dict(op, query=None)] + case['ops'][i + 1:])


def vacuity(counters, evaluations, tier):
    if counters['nontrivial'] * 2 < evaluations:
        return 'cases with an effective mutation below 50%'
    for e in EDGES:
        if counters['edge_' + e] * 100 < evaluations:
            return 'edge %s mutated in fewer than 1%% of the cases' % e
    return None


LEVEL_TEXT = ('Randomised metamorphic testing: for each generated program the run with in-place mutations on the API\'s value-'
              'carrying edges must be indistinguishable (returns, re-execution decisions, bytes of the decompressed cache) from '
              'its twin without them, over the build that creates the records and two builds that are served from them.')
LEVEL_NOTE = ('Trusted: the twin comparison and the convention that generated user code copies before it mutates. Containers of '
              '<=4 leaves, <=4 operations, one level of nesting.')
