"""C07  Cache identity is JSON equality of name, path and arguments."""
import collections
import os
import pathlib

from hypothesis import strategies as st

from .. import env  # noqa: F401
from .. import hyp, valgen
from ..canon import canon, roundtrip, strict_eq
from ..runner import failure, small_hash
from ..sandbox import Sandbox
from ..valuecodec import dec, enc

ID = 'C07'
LEVEL = 'exploration'
CLAUSES = ('C07',)
TECHNIQUE = 'Hypothesis pairs of argument structures built by equality-preserving / near-miss edits and path spellings; observed identity (duplicate rejection in one build, hit/miss in the next) vs. an independent canonical JSON form'
RULE = ('Each case = a pair of calls (subbuild or build_file): function names equal or different, positional and keyword '
        'arguments a2 obtained from a1 by 0-3 edits (list<->tuple, 1<->1.0<->True, key order, key 1<->"1", element order, '
        'dropped/added elements, a keyword argument moved to the positional arguments as name+value / dict / pair; values incl. ints > 2**53, -0.0, inf, non-BMP strings, nested containers with non-string '
        'keys), and for build_file two spellings of the same or of different paths (relative, bytes, pathlib, __fspath__, '
        'redundant separators, ./, x/../, trailing slash). Reference: same entry iff same name, same '
        'os.path.abspath(os.fsdecode(path)) and canon(args,kwargs) equal. Observed both ways: in one build the second call '
        'raises RuntimeError without invoking the function iff same key; in the next build the call is served from the '
        'cache (function not invoked) iff same entry; the function receives exactly json.loads(json.dumps(args)) '
        '(type-strict) and the absolute normalised str path. Non-trivial = a pair that is canon-equal but not type-identical, '
        'or Python-==-equal but canon-different, or two different spellings of one path; distinct = distinct encoded case.')
ASSUMPTIONS = ['NaN is excluded', 'keyword names are strings (Python requirement); non-string keys occur inside nested dictionaries']


class FsPath:
    def __init__(self, p):
        self.p = p

    def __fspath__(self):
        return self.p


def spell(kind, rel, R):
    """A spelling of the path R/rel (cwd is R)."""
    absolute = os.path.join(R, rel)
    if kind == 'abs':
        return absolute
    if kind == 'rel':
        return rel
    if kind == 'bytes':
        return os.fsencode(absolute)
    if kind == 'relbytes':
        return os.fsencode(rel)
    if kind == 'pathlib':
        return pathlib.Path(absolute)
    if kind == 'fspath':
        return FsPath(absolute)
    if kind == 'fspathbytes':
        return FsPath(os.fsencode(absolute))
    if kind == 'dslash':
        return absolute.replace('/', '//')
    if kind == 'dot':
        return os.path.join(R, '.', rel)
    if kind == 'dotdot':
        return os.path.join(R, 'zz', '..', rel)
    if kind == 'trail':
        return absolute + '/'
    if kind == 'reldot':
        return './' + rel
    raise ValueError(kind)


SPELLINGS = ['abs', 'rel', 'bytes', 'relbytes', 'pathlib', 'fspath', 'fspathbytes', 'dslash', 'dot', 'dotdot', 'trail', 'reldot']
REL_PATHS = ['o', 'd/o', 'd/e/o', 'd/p', 'é/ö', 'sp ace/f.txt']


def FBmod():
    from file_builder import FileBuilder
    return FileBuilder


def run_case(case):
    """Returns (failures, nontrivial flag, info)."""
    import traceback
    try:
        return _run_case(case)
    except Exception as e:
        tb = traceback.format_exc()
        if 'file_builder/' not in tb:
            raise           # a bug of the harness itself, not of the code under test
        return ([failure('C07.unexpected_exception', 'a documented-valid call raised %s' % type(e).__name__, case, tb[-1500:])],
                False, {'same_key': False, 'same_entry': False})


def _run_case(case):
    FileBuilder = FBmod()
    kind = case['kind']
    a1, k1 = dec(case['a1']), dec(case['k1'])
    a2, k2 = dec(case['a2']), dec(case['k2'])
    n1, n2 = case['n1'], case['n2']
    fails = []
    sb = Sandbox()
    cwd = os.getcwd()
    os.chdir(sb.R)
    try:
        cache = os.path.join(sb.R, 'cache.gz')
        same_args = canon([list(a1), k1]) == canon([list(a2), k2])
        if kind == 'sub':
            same_key = n1 == n2 and same_args
            same_entry = same_key
            p1 = p2 = None
        else:
            p1 = spell(case['s1'], case['rel1'], sb.R)
            p2 = spell(case['s2'], case['rel2'], sb.R)
            same_path = os.path.abspath(os.fsdecode(p1)) == os.path.abspath(os.fsdecode(p2))
            same_key = same_path
            same_entry = same_path and n1 == n2 and same_args
        log = []

        def make(tag):
            def fn(_builder, *args, **kwargs):
                if kind == 'file':
                    path, args = args[0], args[1:]
                    if not (type(path) is str and os.path.isabs(path) and os.path.normpath(path) == path):
                        fails.append(failure('C07.path_received', 'function received a path that is not an absolute normalised str',
                                             case, repr(path)))
                    with open(path, 'w') as f:
                        f.write('x')
                log.append((tag, list(args), kwargs))
                return 'r'
            return fn

        def call(b, which, name, path, a, k):
            if kind == 'sub':
                return b.subbuild(name, make(which), *a, **k)
            return b.build_file(path, name, make(which), *a, **k)

        # ---- one build, two calls: duplicate iff same key
        outcome = {}

        def root_both(b):
            call(b, 1, n1, p1, a1, k1)
            try:
                call(b, 2, n2, p2, a2, k2)
                outcome['second'] = 'ok'
            except RuntimeError:
                outcome['second'] = 'RuntimeError'
        FileBuilder.build(cache, 'c07', root_both)
        invoked2 = any(t == 2 for t, _a, _k in log)
        if same_key:
            if outcome['second'] != 'RuntimeError' or invoked2:
                fails.append(failure('C07.same_build', 'equal keys: second call %s, function %s' % (
                    outcome['second'], 'invoked' if invoked2 else 'not invoked'), case, ''))
        else:
            if outcome['second'] != 'ok' or not invoked2:
                fails.append(failure('C07.same_build', 'different keys: second call %s, function %s' % (
                    outcome['second'], 'invoked' if invoked2 else 'not invoked'), case, ''))
        # ---- arguments received: exactly the JSON round trip, type-strict
        for t, ra, rk in log:
            ea, ek = (a1, k1) if t == 1 else (a2, k2)
            if not strict_eq(ra, roundtrip(list(ea))) or not strict_eq(rk, roundtrip(ek)):
                fails.append(failure('C07.args_received', 'function did not receive the JSON round trip of its arguments', case,
                                     'received %r %r expected %r %r' % (ra, rk, roundtrip(list(ea)), roundtrip(ek))))
        FileBuilder.clean(cache, 'c07')
        # ---- two builds: hit iff same entry
        del log[:]
        FileBuilder.build(cache, 'c07', lambda b: call(b, 1, n1, p1, a1, k1))
        del log[:]
        FileBuilder.build(cache, 'c07', lambda b: call(b, 2, n2, p2, a2, k2))
        invoked = bool(log)
        if same_entry and invoked:
            fails.append(failure('C07.next_build', 'same cache entry but the function was invoked again (miss)', case, ''))
        if not same_entry and not invoked:
            fails.append(failure('C07.next_build', 'different cache entries but the call was served from the cache', case, ''))
        try:
            pyeq = (list(a1) == list(a2) and k1 == k2)
        except Exception:
            pyeq = False
        nt = (same_args and not strict_eq([list(a1), k1], [list(a2), k2])) or (pyeq and not same_args) or \
             (kind == 'file' and same_key and case['s1'] != case['s2'])
        return fails, nt, {'same_key': same_key, 'same_entry': same_entry}
    finally:
        os.chdir(cwd)
        sb.close()


kw_names = st.sampled_from(['k', 'a', 'kw', 'key'])


@st.composite
def cases(draw):
    kind = draw(st.sampled_from(['sub', 'file', 'file']))
    a1 = tuple(draw(st.lists(valgen.raw_values(6, subclasses=False), max_size=3)))
    if draw(st.sampled_from(range(4))) == 0:
        # small dictionaries with null / colliding values: key sets of equal size that differ are frequent after one edit
        small = st.dictionaries(st.sampled_from(['a', 'b', 'x', '1']), st.sampled_from([None, None, 0, 1, 'v', [], False]), min_size=1, max_size=3)
        a1 = tuple(draw(st.lists(small, min_size=1, max_size=2)))
    k1 = draw(st.dictionaries(kw_names, valgen.raw_values(5, subclasses=False), max_size=2))
    both, _names = draw(valgen.edited([list(a1), k1], allow_tuples=True, allow_raw_keys=True, max_edits=3))
    if isinstance(both, (list, tuple)) and len(both) == 2 and isinstance(both[0], (list, tuple)) and isinstance(both[1], dict) \
            and all(isinstance(k, str) for k in both[1]):
        a2, k2 = tuple(both[0]), dict(both[1])
    else:
        a2, k2 = a1, dict(k1)       # the edit broke the [args, kwargs] shape: fall back to the identical pair
    if draw(st.sampled_from(range(6))) == 0:
        # the boundary between positional and keyword arguments moves: f('k', v) / f(k=v) / f({'k': v}) / f(['k', v])
        if not k1:
            k1 = {draw(kw_names): draw(valgen.raw_values(4, subclasses=False))}
        name = sorted(k1)[-1]
        rest = {kk: vv for kk, vv in k1.items() if kk != name}
        shift = draw(st.sampled_from(['kw->pos', 'kw->posdict', 'kw->poslist', 'allkw->posdict', 'pos<->kw']))
        if shift == 'kw->pos':
            a2, k2 = tuple(a1) + (name, k1[name]), rest
        elif shift == 'kw->posdict':
            a2, k2 = tuple(a1) + ({name: k1[name]},), rest
        elif shift == 'kw->poslist':
            a2, k2 = tuple(a1) + ([name, k1[name]],), rest
        elif shift == 'allkw->posdict':
            a2, k2 = tuple(a1) + (dict(k1),), {}
        else:
            a2, k2 = (name, k1[name]) + tuple(a1), rest
        if draw(st.booleans()):
            a1, k1, a2, k2 = a2, k2, a1, k1
    n1 = draw(st.sampled_from(['f', 'f', 'g', 'é', '']))
    n2 = n1 if draw(st.sampled_from(range(4))) else draw(st.sampled_from(['f', 'g', 'F']))
    case = {'kind': kind, 'a1': enc(a1), 'k1': enc(k1), 'a2': enc(a2), 'k2': enc(k2), 'n1': n1, 'n2': n2}
    if kind == 'file':
        rel1 = draw(st.sampled_from(REL_PATHS))
        rel2 = rel1 if draw(st.sampled_from(range(4))) else draw(st.sampled_from(REL_PATHS))
        case.update({'rel1': rel1, 'rel2': rel2, 's1': draw(st.sampled_from(SPELLINGS)), 's2': draw(st.sampled_from(SPELLINGS))})
    return case


def plan(tier, seed):
    per = 1200 if tier == 'quick' else 25000
    return [{'seed': seed * 977 + i, 'examples': per, 'tier': tier} for i in range(16)]


def run_shard(shard):
    counters = collections.Counter()
    fails = []
    nontriv = set()
    samples = []
    n = [0]

    def body(case):
        n[0] += 1
        fs, nt, info = run_case(case)
        fails.extend(fs[:1])
        counters['pairs_same_key'] += info['same_key']
        counters['pairs_same_entry'] += info['same_entry']
        counters['pairs_' + case['kind']] += 1
        if nt:
            counters['nontrivial'] += 1
            nontriv.add(small_hash(case))
            if len(samples) < 2:
                samples.append(case)

    hyp.run(cases(), body, shard['examples'], shard['seed'], stats=counters)
    return {'evaluations': n[0], 'nontrivial': nontriv, 'samples': samples, 'counters': counters, 'failures': fails}


def replay(case):
    return run_case(case)[0]


def vacuity(counters, evaluations, tier):
    if counters['nontrivial'] * 10 < evaluations:
        return 'non-trivial pairs below 10%'
    if counters['pairs_same_entry'] * 10 < evaluations or counters['pairs_same_entry'] * 10 > evaluations * 9:
        return 'same-entry pairs outside 10%%..90%% (%d of %d)' % (counters['pairs_same_entry'], evaluations)
    return None


LEVEL_TEXT = ('Randomised search over pairs of argument structures and path spellings with an exact two-sided oracle (an '
              'independent canonical JSON form and os.path.abspath(os.fsdecode(.))): both "equal keys collide" and "different '
              'keys never collide" are observed through duplicate rejection and through hit/miss in the following build.')
LEVEL_NOTE = 'Trusted: fbverif/canon.py, json round trip, os.path.abspath. Values up to ~6 leaves per argument, <=3 positional and <=2 keyword arguments.'
