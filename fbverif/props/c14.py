"""C14  Internal OS errors surface as exceptions and never leave half-done state."""
import sys

from hypothesis import strategies as st

from .. import gen, histprop
from ..histprop import step

ID = 'C14'
LEVEL = 'fault_enumeration'
CLAUSES = ('C14',)
TECHNIQUE = 'single-fault enumeration: OSError injected at the k-th mutating file-system call of the library (module-global interposition) for every k of generated runs, with and without the caller catching; oracles = rollback snapshot equality / reference model with the active call failing in setup'
RULE = ('Each evaluation = one (program, history prefix, fault position k, catch mode) run. The library\'s mutating calls before '
        'commit/rollback (os.mkdir, os.makedirs, os.rename, os.replace, os.rmdir, gzip.open for writing, tempfile.mkdtemp; '
        'calls under _commit/_roll_back/restore_all/clean/_try_to_remove_file are documented best effort and excluded by '
        'inspecting the call stack) are counted in a fault-free run from a saved state; for every k (all when <=20, else 20 '
        'drawn) the state is restored and the build re-run with OSError(EIO) raised at call k, once letting the resulting '
        'exception propagate through all generated catch clauses (must surface from build, then the C02 oracle: pre-state '
        'byte+mtime identical, nothing left, next build equals its twin) and once catching it right at the builder call in '
        'progress (must surface from that call; the build carries on and outcome, view and final tree must equal the reference '
        'model in which that call failed in setup; a following unchanged build must satisfy C01). Non-trivial = a fault that '
        'fires after the same builder call already had >=1 file-system effect (e.g. the second of three mkdirs, a rename '
        'after mkdirs) or during the cache write; distinct = distinct (scenario, k, mode).')
ASSUMPTIONS = [
    'faults are injected only at calls the library makes before commit/rollback; best-effort clean-up paths are excluded as documented',
    'one fault per run',
]
CFG = gen.cfg_with(universe=gen.make_universe(('a', 'b'), 4, ('c', 'c/a', 'c/a/b/c')), probe_w=1, max_root=5, max_funcs=5,
                   kinds=['file', 'file', 'file', 'sub'], call_w=4, query_w=3,
                   caches=['cache.gz', 'cache.gz', 'cd/cache.gz', 'cd/e/cache.gz'])
ADOPT = {'C01.outcome': 'C14.inconsistent_after_caught_fault', 'C01.tree': 'C14.inconsistent_after_caught_fault',
         'C04.answer': 'C14.inconsistent_after_caught_fault', 'C04.consistency': 'C14.inconsistent_after_caught_fault',
         'C02.file_restore': 'C14.not_rolled_back', 'C02.leftover_file': 'C14.not_rolled_back',
         'C02.leftover_dir': 'C14.not_rolled_back', 'C02.dir_missing': 'C14.not_rolled_back', 'C02.tmpdir': 'C14.not_rolled_back',
         'C02.twin': 'C14.not_rolled_back', 'C01.tmpdir': 'C14.inconsistent_after_caught_fault',
         'C03.foreign_file': 'C14.not_rolled_back', 'C03.dir_removed': 'C14.not_rolled_back',
         'C01.stale_decision': 'C14.inconsistent_after_caught_fault', 'C05.unjustified': None}
KMAX = 20


def program_strategy(cfg, cache):
    # forests with several nested outputs per reusable entry (partial application of cached subtrees) + general programs
    tree_cfg = dict(cfg, chain_p=0.3, max_funcs=6, raise_w=0, nowrite_p=0.0, tree_queries=1)
    return st.one_of(gen.program(cfg, cache), gen.tree_program(tree_cfg, cache))


def drive(draw, h, cfg):
    names = list(h.prog_rel['funcs'])
    univ = cfg['universe']
    h.c14_nt = 0
    h.nt_keys = []
    shape = draw(st.sampled_from(['none', 'cache', 'cache+ext', 'cache+ext', 'cache+ext']))
    for _ in range(draw(st.integers(0, 2))):
        step(h, histprop.draw_ext(draw, h, univ, bias=False))
    if shape != 'none':
        step(h, histprop.draw_build(draw, h, names, fail_p=0.0))
        if shape == 'cache+ext':
            for _ in range(draw(st.integers(1, 3))):
                step(h, histprop.draw_ext(draw, h, univ))
    if h.dead:
        return
    vers = draw(gen.versions_for(names)) if gen.chance(draw, 0.3) else (h.last.get('versions', {}) if h.last else {})
    h.apply(['save'])
    step(h, ['build', vers, None, None, {'k': None}])
    if h.dead:
        return
    M = h.last_fault['count']
    h.stats['c14_prefixes'] += 1
    h.stats['c14_mutating_calls'] += M
    ks = list(range(M)) if M <= KMAX else sorted(draw(st.lists(st.sampled_from(range(M)), min_size=KMAX, max_size=KMAX, unique=True)))
    if M <= KMAX:
        h.stats['c14_prefix_exhaustive'] += 1
    for k in ks:
        for catch in (False, True if k % 2 == 0 else 'retry', 'root'):
            if h.dead:
                return
            h.apply(['restore'])
            step(h, ['build', vers, None, None, {'k': k, 'catch': catch}])
            lf = getattr(h, 'last_fault', None) or {}
            if lf.get('fired') is None:
                h.stats['c14_fault_not_reached'] += 1
                continue
            h.stats['c14_fault_runs'] += 1
            h.stats['c14_fault_at_' + lf['fired'][1]] += 1
            # non-trivial: the same builder call (or the build prologue/epilogue) already made a mutating call
            call = lf.get('call')
            if lf['fired'][1].startswith('gzip') or _earlier_effect_in_same_call(h, lf):
                h.c14_nt += 1
                h.nt_keys.append(['fault', len(h.steps), k, catch])
                h.stats['c14_fault_after_partial_effect'] += 1
            if call == '<top>':
                h.stats['c14_fault_outside_any_call'] += 1
            if h.dead:
                return
            if catch == 'root' and call is not None and call != '<top>' and not getattr(h.rctx, 'extra', {}).get('fault_nested'):
                h.stats['c14_root_catch_runs'] += 1
            if not catch or call == '<top>':
                step(h, ['build', vers, None, None, 'cmp_twin'])
                if call == '<top>':
                    break           # catching makes no difference outside a builder call
            else:
                step(h, ['build', vers, None])        # the cache written after a caught fault must be a valid basis


def _earlier_effect_in_same_call(h, lf):
    # the injector's label list holds every mutating call in order; the harness marks where each generated call began
    marks = getattr(h.rctx, 'extra', {}).get('call_marks') or []
    k = lf['fired'][0]
    start = 0
    for pos in marks:
        if pos <= k:
            start = pos
    return k > start


def adopt(h, f):
    if f['clause'] not in ADOPT:
        return None
    lf = getattr(h, 'last_fault', None)
    if not lf:
        return None
    return ADOPT[f['clause']]


def nontrivial(h):
    return h.c14_nt > 0


def plan(tier, seed):
    return histprop.plan_shards(tier, seed, 1400, 30000)


def run_shard(shard):
    res = histprop.run_history_shard(sys.modules[__name__], shard)
    res['counters']['prefixes'] = res['evaluations']
    res['evaluations'] = int(res['counters'].get('c14_fault_runs', 0))
    return res


def replay(case):
    from ..harness import run_scenario
    return run_scenario(case, clauses=CLAUSES, adopt=adopt)[0]


def shrink_candidates(case):
    steps = case['steps']
    idx = [i for i, s in enumerate(steps) if s[0] == 'restore']
    for i in idx:
        j = i + 1
        while j < len(steps) and steps[j][0] != 'restore':
            j += 1
        c = dict(case)
        c['steps'] = steps[:i] + steps[j:]
        yield c
    yield from histprop.shrink_candidates(case)


def vacuity(counters, evaluations, tier):
    if counters['c14_fault_after_partial_effect'] * 20 < counters['c14_fault_runs']:
        return 'faults after a partial effect below 5%% (%d of %d)' % (counters['c14_fault_after_partial_effect'], counters['c14_fault_runs'])
    return None


LEVEL_TEXT = ('Fault enumeration: for each generated run every mutating file-system call the library makes before commit/rollback '
              'is failed once (exhaustive per run up to 20 positions), with and without the caller catching, and the outcome is '
              'compared with the pre-state (uncaught) or with the reference model in which the active call failed (caught).')
LEVEL_NOTE = ('Faults are injected through module-global proxies (fbverif/interpose.py), so only calls made through the library\'s '
              'os/gzip/tempfile globals are reachable; a single fault per run; errno EIO only.')
