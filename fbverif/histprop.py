"""Shared machinery of the history-based property checks (C01-C06, C08, C10, C12, C13, ...):
shard planning, the Hypothesis body that draws a program and drives a Harness interactively,
classification counters, replay and delta-debugging candidates for scenarios."""
import collections
import copy
import json

from hypothesis import strategies as st

from . import gen, hyp
from .harness import Harness, run_scenario
from .runner import small_hash


def plan_shards(tier, seed, quick_examples, thorough_examples, nshards=16):
    per = quick_examples if tier == 'quick' else thorough_examples
    return [{'seed': seed * 10007 + i * 101 + (0 if tier == 'quick' else 5000), 'examples': max(1, per // nshards),
             'tier': tier, 'i': i} for i in range(nshards)]


def interesting_paths(h):
    """Relative paths worth mutating: outputs / created dirs / observed paths of the last commit."""
    out = []
    lc = h.last_committed
    if lc:
        for group in (lc['outputs'], lc['created'], lc['observed']):
            for p in sorted(group):
                if p.startswith(h.R + '/'):
                    r = h.relp(p)
                    if not h.protected(p):
                        out.append(r)
    return out


def draw_ext(draw, h, univ, bias=True):
    paths = [p for p in univ if not h.protected(h.sb.ap(p))]
    if bias:
        ip = interesting_paths(h)
        if ip and draw(st.booleans()):
            paths = ip
    return draw(gen.ext_step(paths))


def draw_build(draw, h, names, fail_p=0.15, ver_p=0.2):
    nalt = len(h.prog_rel.get('alt_roots', []))
    if nalt and draw(st.sampled_from(range(3))) == 0:
        lc = getattr(h, 'last_committed', None)
        if lc and lc.get('outputs') and draw(st.sampled_from(range(3))) == 0:
            # the user deletes an output by hand and then edits the root function (which may no longer request it)
            outs = sorted(h.relp(p) for p in lc['outputs'] if p.startswith(h.R + '/') and not h.protected(p))
            if outs:
                h.failures.extend(h.apply(['rm', draw(st.sampled_from(outs))]))
        h.failures.extend(h.apply(['root', draw(st.integers(0, nalt))]))
    vers = h.last.get('versions', {}) if h.last else {}
    if gen.chance(draw, ver_p):
        vers = draw(gen.versions_for(names))
    elif draw(st.integers(0, 9)) == 0:
        vers = {}
    fail_at = draw(st.integers(0, 5)) if gen.chance(draw, fail_p) else None
    return ['build', vers, fail_at]


def drive_general(draw, h, cfg, max_steps=10, clean_w=2, ext_w=7, build_w=9):
    names = list(h.prog_rel['funcs'])
    univ = cfg['universe']
    n = draw(st.integers(2, max_steps))
    total = build_w + ext_w + clean_w
    for _ in range(n):
        if h.dead:
            break
        c = draw(st.integers(0, total - 1))
        if c < build_w:
            step = draw_build(draw, h, names)
        elif c < build_w + ext_w:
            step = draw_ext(draw, h, univ)
        else:
            step = ['clean']
        h.failures.extend(h.apply(step))


def run_history_shard(mod, shard):
    counters = collections.Counter()
    nontriv = set()
    samples = []
    fails = []
    evaluations = [0]
    cfg = mod.cfg(shard['tier']) if callable(getattr(mod, 'cfg', None)) else mod.CFG

    def body(data):
        evaluations[0] += 1
        cache = data.draw(st.sampled_from(cfg['caches']))
        prog = data.draw(mod.program_strategy(cfg, cache) if hasattr(mod, 'program_strategy') else gen.program(cfg, cache))
        if gen.chance(data.draw, cfg.get('spell_p', 0.25)):
            # metamorphic layer: every path handed to the library in the real run is respelled (same os.path.abspath)
            prog = dict(prog, spell=data.draw(st.integers(1, 1 << 16)))
            counters['respelled_path_cases'] += 1
        h = Harness(prog, cache, dict(getattr(mod, 'OPTS', {})))
        h.failures = []
        try:
            mod.drive(data.draw, h, cfg)
            counters.update(h.stats)
            if hasattr(mod, 'adopt'):
                for f in h.failures:
                    if f['clause'].split('.')[0] not in mod.CLAUSES:
                        nc = mod.adopt(h, f)
                        if nc:
                            f['clause'] = nc
            mine = [f for f in h.failures if f['clause'].split('.')[0] in mod.CLAUSES]
            for f in h.failures:
                if f['clause'].split('.')[0] not in mod.CLAUSES:
                    counters['other_property_failure_' + f['clause'].split('.')[0]] += 1
            fails.extend(mine[:1])
            nt = mod.nontrivial(h)
            if nt:
                counters['nontrivial_cases'] += 1
                if getattr(h, 'nt_keys', None):
                    base = small_hash([h.prog_rel, h.cache_rel])
                    nontriv.update(small_hash([base, k]) for k in h.nt_keys)       # distinct (scenario, point) pairs
                else:
                    nontriv.add(small_hash(h.scenario()))
                if len(samples) < 2:
                    samples.append(_sample(h))
            for fl in h.flags:
                counters['flag_' + fl] += 1
        finally:
            h.close()

    hyp.run(st.data(), body, shard['examples'], shard['seed'], stats=counters)
    return {'evaluations': evaluations[0], 'nontrivial': nontriv, 'samples': samples, 'counters': counters,
            'failures': fails}


def _sample(h):
    sc = copy.deepcopy(h.scenario())
    sc['prog'] = {'root': sc['prog']['root'], 'funcs': sc['prog']['funcs'],
                  'universe': '<%d paths>' % len(sc['prog'].get('universe', []))}
    s = json.dumps(sc)
    if len(s) > 2500:
        sc = {'truncated': s[:2500]}
    return sc


def replay_for(mod):
    def replay(case):
        fails, _stats = run_scenario(case, clauses=mod.CLAUSES)
        return fails
    return replay


# --------------------------------------------------------------------------------------------------
# delta debugging candidates
# --------------------------------------------------------------------------------------------------

def _without(lst, i):
    return lst[:i] + lst[i + 1:]


def _block_variants(stmts):
    """Yield smaller variants of a statement list."""
    for i in range(len(stmts)):
        yield _without(stmts, i)
    for i, s in enumerate(stmts):
        if s[0] == 'if':
            yield stmts[:i] + [['q'] + s[1][1:]] + s[2] + stmts[i + 1:]
            yield stmts[:i] + [['q'] + s[1][1:]] + s[3] + stmts[i + 1:]
            for v in _block_variants(s[2]):
                yield stmts[:i] + [[s[0], s[1], v, s[3]]] + stmts[i + 1:]
            for v in _block_variants(s[3]):
                yield stmts[:i] + [[s[0], s[1], s[2], v]] + stmts[i + 1:]
        elif s[0] == 'par':
            for ti in range(len(s[1])):
                if len(s[1]) > 1:
                    yield stmts[:i] + [['par', _without(s[1], ti)] + s[2:]] + stmts[i + 1:]
                for v in _block_variants(s[1][ti]):
                    yield stmts[:i] + [['par', s[1][:ti] + [v] + s[1][ti + 1:]] + s[2:]] + stmts[i + 1:]
        elif s[0] in ('bf', 'sb'):
            ai = 3 if s[0] == 'bf' else 2
            if s[ai]:
                t = list(s)
                t[ai] = []
                yield stmts[:i] + [t] + stmts[i + 1:]
        elif s[0] == 'probe':
            pass


def _used_funcs(prog):
    from .dsl import iter_stmts
    used = set()
    todo = [prog['root']] + list(prog.get('alt_roots', []))
    while todo:
        for s in iter_stmts(todo.pop()):
            fn = s[2] if s[0] == 'bf' else s[1] if s[0] == 'sb' else None
            if fn and fn not in used and fn in prog['funcs']:
                used.add(fn)
                todo.append(prog['funcs'][fn]['body'])
    return used


def shrink_candidates(case):
    steps = case['steps']
    # 1. fewer steps (drop later steps first: failures usually sit at the end)
    for i in reversed(range(len(steps))):
        c = dict(case)
        c['steps'] = _without(steps, i)
        yield c
    prog = case['prog']
    # 2. alternative roots, unused functions
    if prog.get('alt_roots') and not any(s[0] == 'root' and s[1] for s in steps):
        c = dict(case)
        c['prog'] = {k: v for k, v in prog.items() if k != 'alt_roots'}
        yield c
    used = _used_funcs(prog)
    if len(used) < len(prog['funcs']):
        c = dict(case)
        c['prog'] = dict(prog, funcs={k: v for k, v in prog['funcs'].items() if k in used})
        yield c
    # 3. smaller root / bodies
    for v in _block_variants(prog['root']):
        c = dict(case)
        c['prog'] = dict(prog, root=v)
        yield c
    for name, f in prog['funcs'].items():
        for v in _block_variants(f['body']):
            c = dict(case)
            funcs = dict(prog['funcs'])
            funcs[name] = dict(f, body=v)
            c['prog'] = dict(prog, funcs=funcs)
            yield c
    # 4. simpler steps
    for i, s in enumerate(steps):
        if s[0] == 'build':
            if s[1]:
                c = dict(case)
                c['steps'] = steps[:i] + [['build', {}] + list(s[2:])] + steps[i + 1:]
                yield c
            if len(s) > 2 and s[2] is not None and (len(s) < 4 or s[3] is None):
                c = dict(case)
                c['steps'] = steps[:i] + [['build', s[1], None]] + steps[i + 1:]
                yield c
                for k in range(0, s[2]):
                    c = dict(case)
                    c['steps'] = steps[:i] + [['build', s[1], k]] + steps[i + 1:]
                    yield c
    if case.get('cache', 'cache.gz') != 'cache.gz':
        c = dict(case)
        c['cache'] = 'cache.gz'
        yield c


def install(g, quick, thorough):
    """Define plan/run_shard/replay/shrink_candidates in a property module's namespace ``g``."""
    import sys
    name = g['__name__']

    def plan(tier, seed):
        return plan_shards(tier, seed, quick, thorough)

    def run_shard(shard):
        return run_history_shard(sys.modules[name], shard)

    def replay(case):
        return run_scenario(case, clauses=g['CLAUSES'], adopt=g.get('adopt'))[0]

    g.setdefault('plan', plan)
    g.setdefault('run_shard', run_shard)
    g.setdefault('replay', replay)
    g.setdefault('shrink_candidates', shrink_candidates)


def step(h, s):
    """Apply a step and collect its failures."""
    h.failures.extend(h.apply(s))
