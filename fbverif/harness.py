"""History harness: executes a scenario (program + sequence of steps) against the real FileBuilder
in a sandbox, runs the reference model alongside, and evaluates the oracles of DESIGN.md section 5
after every step.  ``Harness.apply(step)`` returns the list of oracle failures of that step;
``run_scenario`` replays a complete scenario without Hypothesis (the replay path).

Failure clauses (first component = property the clause belongs to):

  C01.outcome C01.tree C01.tmpdir C01.crash
  C02.exc_identity C02.file_restore C02.leftover_file C02.leftover_dir C02.dir_missing C02.tmpdir C02.twin
  C03.foreign_file C03.dir_removed
  C04.answer C04.consistency C04.walk_order
  C05.unjustified C05.unchanged_rebuild C05.rewrite
  C01.stale_decision C06.missed_invalidation C08.setup_failed_served C13.missed_change   (forward decisions)
  C08.multi_invocation
  C10.contract
  C12.tree C12.noop C12.tmpdir C12.after_clean
  C14.not_surfaced C14.swallowed
  C09.deadlock
"""
import collections
import json
import os
import shutil
import traceback

from . import dsl
from . import env  # noqa: F401
from .canon import canon
from .model import (Crash, CrashBase, ModelBuild, ModelBuilder, ModelFS, Node, Prev, UserError, events_equal,
                    index_forest, substitute_real_meta)
from .runner import failure
from .sandbox import LONG_NAME, Sandbox, model_tree, snapshot

BUILD_NAME = 'fbverif'


def FB():
    from file_builder import FileBuilder
    return FileBuilder


class Harness:
    def __init__(self, prog, cache_rel='cache.gz', opts=None):
        self.opts = opts or {}
        self.sb = Sandbox()
        self.R = self.sb.R
        self.prog_rel = prog
        self.prog = dsl.bind_program(prog, self.sb.ap)
        self.cache_rel = cache_rel
        self.cache = self.sb.ap(cache_rel)
        self.universe = [self.R] + [self.sb.ap(p) for p in prog.get('universe', [])]
        self.masked = set()
        d = os.path.dirname(self.cache)
        while d != self.R and len(d) > len(self.R):
            self.masked.add(d)
            d = os.path.dirname(d)
        self.prev = Prev()
        self.step = 0
        self.steps = []
        self.stats = collections.Counter()
        self.flags = set()
        self.dead = False
        self.last = {}          # info about the last build (for generators / classification)
        self.last_committed = None
        self.mutated_since_commit = False
        self.ever_outputs = set()
        self.active_root = 0            # which root function variant the next build runs (['root', i] steps)
        self.stale_allowed = False      # C13: a content change hidden from METADATA was made (legitimately served stale)
        self.after_clean = False
        self.commits = 0
        self.created_sets = []

    def close(self):
        self.sb.close()

    def scenario(self):
        return {'prog': self.prog_rel, 'cache': self.cache_rel, 'steps': self.steps, 'opts': self.opts}

    def _case(self):
        return self.scenario()

    def _fail(self, clause, sig, detail):
        return failure(clause, sig, self._case(), json.dumps(detail, default=_dflt)[:3500])

    def relp(self, p):
        try:
            if p == self.R or p.startswith(self.R + '/'):
                return self.sb.rel(p)
        except Exception:
            pass
        return p

    # ------------------------------------------------------------------------------------------
    def apply(self, step):
        """Apply one step; returns list of failures (empty if all oracles held)."""
        self.steps.append(step)
        if self.dead:
            return []
        op = step[0]
        try:
            if op == 'build':
                fails = self.build(step[1], step[2] if len(step) > 2 else None,
                                   step[3] if len(step) > 3 else None,
                                   step[4] if len(step) > 4 else None)
            elif op == 'clean':
                self._twin_state = None
                fails = self.clean()
            elif op == 'root':
                if int(step[1]) != self.active_root:
                    self.mutated_since_commit = True        # the user edited the root function: not an unchanged rebuild
                self.active_root = int(step[1])
                fails = []
            elif op == 'sweep':
                fails = self.sweep(step[1], step[2] if len(step) > 2 else None)
            elif op == 'save':
                self._save_state()
                fails = []
            elif op == 'restore':
                self._restore_state()
                fails = []
            else:
                self._twin_state = None
                changed = self.ext(step)
                self._prune_links()
                if changed:
                    self.mutated_since_commit = True
                    self.stats['ext_effective'] += 1
                else:
                    self.stats['ext_noop'] += 1
                fails = []
        except _Abort as a:
            fails = a.fails
        if fails and not self.opts.get('keep_going'):
            self.dead = True
        return fails

    # ---- external mutations ----------------------------------------------------------------------
    def protected(self, p):
        """Paths external mutations must not create/alter: the cache file and its ancestors."""
        return p == self.cache or p in self.masked or p == self.R

    def ext(self, s):
        op = s[0]
        sb = self.sb
        if op == 'rm_cache':
            if os.path.isfile(self.cache):
                os.remove(self.cache)
                self.stale_allowed = False
                return True
            return False
        p = sb.ap(s[1])
        if self.protected(p) and op != 'rm':
            return False
        if any(len(c) > 255 for c in p.split('/')):
            return False        # the OS cannot create such a name: no external change possible
        if op == 'rm' and (p == self.R):
            return False
        if op == 'write':
            if os.path.islink(p):
                os.remove(p)
            if os.path.isdir(p):
                if self._holds_cache(p):
                    return False
                shutil.rmtree(p)
            d = os.path.dirname(p)
            try:
                os.makedirs(d, exist_ok=True)
            except OSError:
                return False
            with open(p, 'wb') as f:
                # tag 2: a file longer than the library's 1024-byte hashing block (2800 bytes)
                f.write(('ext%s' % s[2]).encode() * (700 if s[2] == 2 else 1))
            mt = sb.next_mtime()
            os.utime(p, ns=(mt, mt))
            return True
        if op == 'rm':
            if os.path.islink(p):
                os.remove(p)
                return True
            if os.path.isdir(p):
                shutil.rmtree(p)
                return True
            if os.path.lexists(p):
                os.remove(p)
                return True
            return False
        if op == 'mkdir':
            if os.path.isfile(p):
                os.remove(p)
            try:
                os.makedirs(p, exist_ok=True)
                return True
            except OSError:
                return False
        if op == 'touch':
            if os.path.islink(p):
                return False
            if os.path.isfile(p):
                mt = sb.next_mtime()
                os.utime(p, ns=(mt, mt))
                return True
            return False
        if op == 'rewrite_keep_meta':
            # change the content, keep size and mtime_ns (C13: invisible to METADATA, visible to HASH)
            if os.path.isfile(p) and not os.path.islink(p):
                st = os.stat(p)
                with open(p, 'rb') as f:
                    data = f.read()
                if not data:
                    return False
                new = bytes([(data[0] + 1 + int(s[2] if len(s) > 2 else 0)) % 256]) + data[1:]
                if new == data:
                    return False
                with open(p, 'wb') as f:
                    f.write(new)
                os.utime(p, ns=(st.st_atime_ns, st.st_mtime_ns))
                self.stale_allowed = True
                return True
            return False
        if op == 'rewrite_same':
            # rewrite identical content with a new mtime (C13: visible to METADATA, invisible to HASH)
            if os.path.isfile(p) and not os.path.islink(p):
                with open(p, 'rb') as f:
                    data = f.read()
                with open(p, 'wb') as f:
                    f.write(data)
                mt = sb.next_mtime()
                os.utime(p, ns=(mt, mt))
                return True
            return False
        if op == 'symlinkdir':
            # p becomes a symbolic link to a fresh empty directory outside the universe: for the library (which never
            # resolves links) p is simply an existing directory (C13: outputs built below a linked directory)
            if os.path.lexists(p):
                return False
            store = os.path.join(sb.top, 'linkstore')
            os.makedirs(store, exist_ok=True)
            tgt = os.path.join(store, 'd%d' % len(os.listdir(store)))
            try:
                os.makedirs(os.path.dirname(p), exist_ok=True)
                os.mkdir(tgt)
                os.symlink(tgt, p)
            except OSError:
                return False
            self.has_linkdirs = True
            return True
        if op == 'symlink':
            # p becomes a symbolic link to the regular file s[2] (C13: inputs reached through links)
            tgt = sb.ap(s[2])
            if not os.path.isfile(tgt) or os.path.islink(tgt) or os.path.lexists(p) or tgt == p:
                return False
            try:
                os.makedirs(os.path.dirname(p), exist_ok=True)
                # optional 4th element 'rel': the link text is relative to the link's directory
                os.symlink(os.path.relpath(tgt, os.path.dirname(p)) if len(s) > 3 and s[3] == 'rel' else tgt, p)
                self.has_links = True
            except OSError:
                return False
            return True
        if op == 'swap':
            # file <-> directory swap
            if os.path.isdir(p):
                if self._holds_cache(p):
                    return False
                if os.path.islink(p):
                    os.remove(p)
                else:
                    shutil.rmtree(p)
                with open(p, 'wb') as f:
                    f.write(b'swapped')
                mt = sb.next_mtime()
                os.utime(p, ns=(mt, mt))
                return True
            if os.path.isfile(p):
                os.remove(p)
                os.mkdir(p)
                return True
            return False
        raise ValueError(op)

    def _ctx(self, mode, prog, versions, ctx_step, crash_at=None):
        c = dsl.Ctx(mode, prog, versions, ctx_step, self.universe, self.masked, crash_at)
        c.linkdirs = self._linkdirs()
        return c

    def _linkdirs(self):
        """Directories of the universe that are symbolic links (only C10/C13 create them)."""
        if not getattr(self, 'has_linkdirs', False):
            return ()
        out = []
        for root, dirs, _files in os.walk(self.R, followlinks=True):
            for d in dirs:
                p = os.path.join(root, d)
                if os.path.islink(p):
                    out.append(p)
        return tuple(out)

    def _prune_links(self):
        """The small model of links: a link points to a regular file, or (C10/C13) to a directory outside the universe.
        An external step that turns the target of a file link into a directory removes the link as well."""
        if not getattr(self, 'has_links', False):
            return
        for root, dirs, files in os.walk(self.R):
            for n in dirs + files:
                p = os.path.join(root, n)
                if os.path.islink(p) and os.path.isdir(p) and os.path.realpath(p).startswith(self.R + os.sep):
                    os.remove(p)

    def _holds_cache(self, p):
        return self.cache.startswith(p + '/')

    def sweep(self, versions, random_spec=None):
        """Exhaustive single-preemption sweep of a parallel build from the current state (or, with
        random_spec = {"seeds": n, "p": p, "first": f}, n seeded random schedules), each run followed by an
        unchanged rebuild and clean (schedule-robust form of a regression witness)."""
        self._save_state()
        fails = self.build(versions, None, None, {'sched': {'preempt': []}})
        if fails:
            return fails
        n = ((self.rctx.extra.get('sched_runs') or [{'decisions': 0}])[0])['decisions']
        if random_spec:
            specs = [{'mode': 'random', 'seed': sd, 'p': random_spec.get('p', 0.15), 'first': random_spec.get('first', 0)}
                     for sd in range(random_spec['seeds'])]
        else:
            specs = [{'preempt': [[i, 0]]} for i in range(1, n + 1)]
        for i, spec in enumerate(specs, 1):
            self._restore_state()
            for s in (['build', versions, None, None, {'sched': spec}],
                      ['build', versions, None, None, {'sched': {'preempt': []}}], ['clean']):
                fails = self.build(s[1], None, None, s[4]) if s[0] == 'build' else self.clean()
                if fails:
                    for f in fails:
                        f['sig'] += ' [preemption %d of %d]' % (i, n)
                    return fails
            self.stats['sweep_runs'] += 1
        return []

    # ---- save / restore (crash-point and fault enumeration) ---------------------------------------
    def _save_state(self):
        self._saved = {'fs': self.sb.save(), 'prev': self.prev, 'step': self.step, 'clock': self.sb.clock,
                       'last_committed': self.last_committed, 'last': dict(self.last),
                       'mutated': self.mutated_since_commit, 'active_root': self.active_root}
        self._twin = None
        self._want_twin = True

    def _restore_state(self):
        sv = self._saved
        self.sb.restore(sv['fs'])
        self.prev = sv['prev']
        self.step = sv['step']
        self.sb.clock = sv['clock']
        self.last_committed = sv['last_committed']
        self.last = dict(sv['last'])
        self.mutated_since_commit = sv['mutated']
        self.active_root = sv['active_root']
        self._twin_state = 'restored'

    # ---- build ---------------------------------------------------------------------------------------
    def build(self, versions, fail_at=None, crash_at=None, mode=None):
        if isinstance(versions, dict) and '$v' in versions:
            from .valuecodec import dec
            versions = dec(versions['$v'])
        if crash_at is None:
            self.step += 1
            ctx_step = self.step
        else:
            ctx_step = 100000 + self.step * 1000 + crash_at      # unique mtimes, consumes no step number
        FileBuilder = FB()
        prog = self.prog
        if self.active_root and self.active_root <= len(prog.get('alt_roots', [])):
            # the user edited the (uncached) root build function between builds
            prog = dict(prog, root=prog['alt_roots'][self.active_root - 1])
        if fail_at is not None:
            prog = dict(prog)
            r = list(prog['root'])
            k = len(r) - (fail_at % (len(r) + 1))     # counted from the end: stable under shrinking
            r.insert(k, ['raise'])
            prog['root'] = r
        pre = snapshot(self.R)
        pre_model = model_tree(pre)
        has_cache = self.cache in pre and pre[self.cache][0] == 'f'
        fails = []

        fault = mode if isinstance(mode, dict) and 'k' in mode else None
        sched_spec = mode.get('sched') if isinstance(mode, dict) else None
        uses_par = any(s[0] == 'par' for blk in [prog['root']] + [f['body'] for f in prog['funcs'].values()] for s in dsl.iter_stmts(blk))
        mctx = self._ctx('model', prog, versions, ctx_step)
        mb = ModelBuild(pre_model, self.prev, self.cache, versions, self.R)

        def run_model():
            # crash builds: the model only says "it raises"
            if crash_at is not None:
                return ('exc', 'Crash')
            try:
                return ('ok', dsl.root_func(mctx)(ModelBuilder(mb, None)))
            except Exception as e:
                return ('exc', dsl.exc_class(e))

        any_order = uses_par and self.opts.get('par_any_order')
        if fault is None and not any_order:
            mret = run_model()

        # ---- real run
        rctx = self._ctx('real', prog, versions, ctx_step, crash_at)
        real_exc = None
        inj = None
        if fault is not None:
            from . import interpose
            interpose.install()
            inj = interpose.FaultInjector(fault.get('k'))
            rctx.fault_mode = {True: 'catch', 'retry': 'catch', 'root': 'catch_root'}.get(fault.get('catch'), 'nocatch')
            rctx.fault_retry = fault.get('catch') == 'retry'

            def on_fire(_i):
                rctx.fault_call = rctx.call_stack[-1] if rctx.call_stack else '<top>'
            inj.on_fire = on_fire
            rctx.extra['injector'] = inj
            interpose.HOOK = inj
        if uses_par:
            from . import sched
            sched.enable()
            rctx.extra['sched_spec'] = sched_spec
        if isinstance(mode, dict) and mode.get('base'):
            rctx.extra['crash_base'] = True
        try:
            rret = ('ok', FileBuilder.build_versioned(dsl.spell(prog.get('spell'), 'cache%d' % self.step, self.cache), BUILD_NAME, versions, dsl.root_func(rctx)))
        except (Exception, CrashBase) as e:
            real_exc = e
            rret = ('exc', dsl.exc_class(e))
            rctx.extra['tb'] = traceback.format_exc()
        finally:
            if fault is not None:
                interpose.HOOK = None
            if uses_par:
                sched.disable()
        if rctx.extra.get('deadlock'):
            fails.append(self._fail('C09.deadlock', 'deadlock: every live thread waits for a lock', {'step': self.step, 'schedule': sched_spec}))
        for sr in rctx.extra.get('sched_runs', []):
            self.stats['sched_par_runs'] += 1
            self.stats['sched_decision_points'] += sr['decisions']
            self.stats['sched_switches'] += sr['switches']
        fault_fired = inj is not None and inj.fired is not None
        self._fault_fired_now = fault_fired
        if fault is not None:
            self.last_fault = {'count': inj.count, 'fired': inj.fired, 'call': rctx.fault_call, 'labels': inj.labels}
            if fault_fired and rctx.fault_call != '<top>' and rctx.fault_mode in ('catch', 'catch_root'):
                mctx.fault_mode = rctx.fault_mode
                mctx.fault_retry = getattr(rctx, 'fault_retry', False)
                mctx.fault_call = rctx.fault_call
                mb.fault_inv = rctx.fault_call
                mret = run_model()
            elif fault_fired:
                mret = ('exc', 'fault')
            else:
                mret = run_model()
        elif any_order:
            # tasks race for one key: every sequential order of the tasks is a valid reference
            import itertools
            ntasks = max(len(st_[1]) for blk in [prog['root']] + [f['body'] for f in prog['funcs'].values()]
                         for st_ in dsl.iter_stmts(blk) if st_[0] == 'par')
            first = None
            best = None
            real_inv = collections.Counter((l['inv'], l['args']) for l in rctx.log)
            # second round: the reuse of a record may also be rejected because a concurrent task claimed a key inside it
            for implied in (False, True):
                for order in itertools.permutations(range(ntasks)):
                    mctx = self._ctx('model', prog, versions, ctx_step)
                    mctx.extra['par_order'] = list(order)
                    mb = ModelBuild(pre_model, self.prev, self.cache, versions, self.R)
                    mb.implied_dup = implied
                    mret = run_model()
                    if first is None:
                        first = (mctx, mb, mret)
                    if implied and not _implied_possible(mb.implied_hits, rctx.extra.get('events', [])):
                        # the competing function had already been *invoked* when the reusing call was requested: its key
                        # was claimed before the record was validated, so the library must re-execute the caller instead
                        self.stats['par_implied_variant_ruled_out'] += 1
                        continue
                    if _outcome_key(mret) == _outcome_key(rret):
                        # several references may explain the outcome: take the one that claims the fewest cache hits
                        # (invocations are compared with their arguments: two racers may request one path with
                        # different arguments, and in a build that fails anyway the outcome does not tell who won)
                        minv = collections.Counter((l['inv'], l['args']) for l in mctx.log)
                        extra = sum((minv - real_inv).values()) + 1000 * sum((real_inv - minv).values())
                        if best is None or extra < best[0]:
                            best = (extra, (mctx, mb, mret), 'par_order_%s%s' % (''.join(map(str, order)), '_implied' if implied else ''))
                if best is not None and best[0] == 0:
                    break
            if best is not None:
                mctx, mb, mret = best[1]
                self.stats[best[2]] += 1
            else:
                mctx, mb, mret = first
        post = snapshot(self.R)
        info = {'step': self.step, 'model': mret if mret[0] == 'exc' else ('ok',), 'real': rret if rret[0] == 'exc' else ('ok',)}
        self.rctx, self.mctx, self.mb = rctx, mctx, mb

        nm, nr = len(mctx.log), len(rctx.log)
        st = self.stats
        st['builds'] += 1
        st['builds_committed'] += mret[0] == 'ok'
        st['builds_on_cache'] += has_cache
        st['model_invocations'] += nm
        st['real_invocations'] += nr
        hit = crash_at is None and nr < nm
        partial = crash_at is None and 0 < nr < nm
        st['builds_with_hit'] += hit
        st['builds_partial_hit'] += partial
        self.last = {'committed': mret[0] == 'ok', 'has_cache': has_cache, 'hit': hit, 'partial': partial,
                     'nm': nm, 'nr': nr, 'mutated': self.mutated_since_commit, 'versions': versions}

        # ---- a build without a cache file is a first build: every function the model calls is called
        if not has_cache and crash_at is None and mret[0] == 'ok' and rret[0] == 'ok':
            if sorted(l['inv'] for l in rctx.log) != sorted(l['inv'] for l in mctx.log):
                fails.append(self._fail('C12.after_clean' if self.after_clean else 'C01.first_build',
                                        'a build without a cache file did not call every function', info))
        if crash_at is None:
            self.after_clean = False

        # ---- C08: at most one invocation per key
        seen = collections.Counter(l['inv'] for l in rctx.log)
        for inv, n in seen.items():
            if n > 1:
                fails.append(self._fail('C08.multi_invocation', 'function invoked %d times for one key' % n,
                                        {**info, 'inv': self.relp(inv)}))

        # ---- C10: contract violations seen from inside / right after build_file
        for what, p in rctx.inside_fail:
            fails.append(self._fail('C10.contract', what, {**info, 'path': self.relp(p)}))

        # ---- C04: answers of every query the real run executed vs the model at the same point
        if crash_at is None:
            fails.extend(self._check_c04(rctx, mctx, info))
        for (p, td) in rctx.extra.get('walk_order', []):
            fails.append(self._fail('C04.walk_order', 'walk violates the top_down ordering constraint',
                                    {**info, 'path': self.relp(p), 'top_down': td}))
        fails.extend(self._check_consistency(rctx, info))
        executed = {l['inv'] for l in rctx.log} | {'<root>'}
        for inv, busy, stale in mctx.extra.get('probe_points', []):
            if inv in executed:
                st['c04_probes_executed'] += 1
                if busy and stale:
                    st['c04_probes_nontrivial'] += 1
                    self.flags.add('c04_nontrivial')

        # ---- outcome
        view_ok = not any(f['clause'].startswith('C04') for f in fails)
        if crash_at is not None:
            if rret != ('exc', 'Crash'):
                if rctx.crash_obj is None:
                    # the crash point was not reached (fewer boundaries than counted): not a case
                    st['crash_not_reached'] += 1
                else:
                    fails.append(self._fail('C02.exc_identity', 'crash exception replaced by %s' % (rret[1] if rret[0] == 'exc' else 'a normal return'),
                                            {**info, 'tb': rctx.extra.get('tb', '')[-1500:]}))
        elif mret == ('exc', 'fault'):
            if rret[0] != 'exc':
                fails.append(self._fail('C14.not_surfaced', 'an injected OSError in %s did not surface from build' % inj.fired[1],
                                        {**info, 'fault': inj.fired}))
        elif _outcome_key(mret) != _outcome_key(rret):
            sig = 'model %s / real %s' % (_short(mret), _short(rret))
            fails.append(self._fail('C01.outcome', sig, {**info, 'model_value': mret[1] if mret[0] == 'ok' else None,
                                                         'real_value': rret[1] if rret[0] == 'ok' else None,
                                                         'tb': rctx.extra.get('tb', '')[-1500:]}))
        if real_exc is not None and rret[0] == 'exc':
            expected_obj = rctx.crash_obj if crash_at is not None and rctx.crash_obj is not None else (
                rctx.raised_objs[-1] if isinstance(real_exc, UserError) and rctx.raised_objs else None)
            if isinstance(real_exc, UserError) and any(real_exc is o for o in rctx.raised_objs):
                expected_obj = real_exc      # several tasks may raise: any of the raised objects is "the same object"
            if expected_obj is not None and real_exc is not expected_obj and isinstance(real_exc, (UserError, Crash, CrashBase)):
                fails.append(self._fail('C02.exc_identity', 'propagated exception is not the raised object', info))

        if rctx.extra.get('fault_swallowed'):
            fails.append(self._fail('C14.swallowed', 'an injected OSError in %s was swallowed: the call in progress returned normally' % inj.fired[1],
                                    {**info, 'fault': inj.fired, 'call': self.relp(rctx.extra['fault_swallowed'])}))
        tmp_left = self.sb.tmp_listing()
        real_committed = rret[0] == 'ok'
        if real_committed:
            if tmp_left:
                fails.append(self._fail('C01.tmpdir', 'temporary directory left after a committed build', {**info, 'ls': tmp_left}))
        else:
            if tmp_left:
                fails.append(self._fail('C02.tmpdir', 'temporary directory left after a rolled-back build', {**info, 'ls': tmp_left}))

        # ---- C03 (independent of the model's tree prediction)
        fails.extend(self._check_c03(pre, post, rctx, mb, real_committed, info))

        if real_committed and mret[0] == 'ok':
            exp, cd = mb.committed_tree()
            tf = self._cmp_tree('C01.tree', exp, post, info)
            fails.extend(tf)
            real_meta = {p: (len(post[p][1]), post[p][2]) for p in mb.outputs if p in post and post[p][0] == 'f'}
            import hashlib
            mh = {p: hashlib.sha256(mb.v.t[p][1]).hexdigest() for p in mb.outputs if p in mb.v.t and mb.v.t[p][0] == 'f'}
            rh = {p: hashlib.sha256(post[p][1]).hexdigest() for p in mb.outputs if p in post and post[p][0] == 'f'}
            substitute_real_meta(mb.forest, {p: mctx.mtime_for(p) for p in mb.outputs}, real_meta, mh, rh)
            if has_cache and (self.stale_allowed or (view_ok and not tf and not any(f['clause'] == 'C01.outcome' for f in fails))):
                fails.extend(self._check_c05(mb, versions, pre, post, rctx, info))
            elif has_cache:
                st['c05_skipped_presupposition'] += 1
            new_prev = Prev(mb.outputs, set(mb.created) | set(cd), versions, mb.forest)
            new_prev.meta = {p: (post[p][1], post[p][2]) for p in mb.outputs if p in post and post[p][0] == 'f'}
            new_prev.overwrote_foreign = bool(mb.overwritten_foreign)
            # the conditions of that build no longer hold next time: an injected I/O error / the winner of a key race
            new_prev.had_fault = fault_fired or bool(any_order)
            self.prev = new_prev
            self.last_committed = {'step': self.step, 'observed': self._observed_paths(mb.forest, mctx),
                                   'outputs': set(mb.outputs), 'created': set(mb.created) | set(cd),
                                   'raised_records': sum(1 for r in mb.forest for n in r.walk() if n.raised)}
            self.mutated_since_commit = False
            self.ever_outputs |= set(mb.outputs)
            self.commits += 1
            self.created_sets.append(frozenset(new_prev.created_dirs))
        elif not real_committed:
            fails.extend(self._check_rollback(pre, post, rctx, info))
            st['rollbacks'] += 1
            st['rollbacks_on_cache'] += has_cache
            if has_cache and nr > 0:
                st['rollbacks_after_work_on_cache'] += 1
        if self.stale_allowed:
            # content-level comparison with from-scratch is meaningless once a stale hit was legitimate
            n0 = len(fails)
            fails = [f for f in fails if f['clause'] not in ('C01.outcome', 'C01.tree', 'C04.answer')]
            st['stale_allowed_content_failures_ignored'] += n0 - len(fails)
        if fault is not None and fault.get('k') is not None and not real_committed:
            self.step -= 1        # like a crash build: a rolled-back fault build consumes no step number (twin mtimes)
        twin_state = getattr(self, '_twin_state', None)
        self._twin_state = 'after_failed' if (twin_state == 'restored' and not real_committed) else None
        # ---- twin bookkeeping (C02c: the build after a failed build == the same build without it)
        summary = {'outcome': _outcome_key(rret), 'tree': {k: v[:3] for k, v in post.items() if k != self.cache},
                   'cache_present': self.cache in post, 'log': [(l['inv']) for l in rctx.log]}
        if getattr(self, '_want_twin', False) and crash_at is None and (fault is None or fault.get('k') is None):
            self._twin = summary
            self._want_twin = False
        elif mode == 'cmp_twin' and getattr(self, '_twin', None) is not None and twin_state != 'after_failed':
            st['twin_compare_skipped_invalid_sequence'] += 1     # e.g. a shrunk scenario that lost its restore step
        elif mode == 'cmp_twin' and getattr(self, '_twin', None) is not None:
            tw = self._twin
            st['twin_compared'] += 1
            if tw['outcome'] != summary['outcome']:
                fails.append(self._fail('C02.twin', 'next build outcome differs from the twin without the failed build', info))
            elif tw['log'] != summary['log']:
                fails.append(self._fail('C02.twin', 'next build invokes different functions than the twin',
                                        {**info, 'twin': [self.relp(x) for x in tw['log']], 'here': [self.relp(x) for x in summary['log']]}))
            elif tw['tree'] != summary['tree'] or tw['cache_present'] != summary['cache_present']:
                diff = [self.relp(k) for k in sorted(set(tw['tree']) | set(summary['tree'])) if tw['tree'].get(k) != summary['tree'].get(k)]
                fails.append(self._fail('C02.twin', 'tree after the next build differs from the twin (incl. mtimes)', {**info, 'paths': diff[:6]}))
        return fails

    # ---- C04 ---------------------------------------------------------------------------------------------
    def _check_c04(self, rctx, mctx, info):
        fails = []
        for key, rv in rctx.trace.items():
            mv = mctx.trace.get(key)
            if mv is None:
                # the model never reached this point: outcome/flow divergence, reported by C01
                self.stats['c04_point_missing_in_model'] += 1
                continue
            self.stats['c04_answers_compared'] += 1
            if rv != mv:
                kind, path, ans = rv
                sig = '%s real=%s model=%s' % (kind, _ans_sig(ans), _ans_sig(mv[2]))
                fails.append(self._fail('C04.answer', sig, {**info, 'at': [self.relp(str(key[0])), key[1]],
                                                            'query': [kind, self.relp(path)],
                                                            'real': _relans(self, ans), 'model': _relans(self, mv[2])}))
                break
        return fails

    def _check_consistency(self, rctx, info):
        """Model-free mutual consistency of the answers of each probe round (real run)."""
        if getattr(self, 'has_linkdirs', False):
            return []        # walk legitimately omits what lies below a linked directory
        fails = []
        rounds = collections.defaultdict(dict)
        # a probe statement produces, per invocation, a fixed-size consecutive block of trace entries
        per_inv = collections.defaultdict(list)
        for (inv, i), v in sorted(rctx.trace.items(), key=lambda kv: (str(kv[0][0]), kv[0][1])):
            per_inv[inv].append(v)
        upaths = [p for p in self.universe if p not in self.masked]
        block = len(upaths) * len(dsl.PROBE_KINDS) + 2
        for inv, entries in per_inv.items():
            i = 0
            while i + block <= len(entries):
                chunk = entries[i:i + block]
                if self._is_probe_block(chunk, upaths):
                    bad = self._consistency_of(chunk, upaths)
                    self.stats['c04_probe_rounds'] += 1
                    if bad:
                        fails.append(self._fail('C04.consistency', bad[0], {**info, 'at': self.relp(str(inv)), 'detail': bad[1]}))
                        return fails
                    i += block
                else:
                    i += 1
        return fails

    def _is_probe_block(self, chunk, upaths):
        j = 0
        for p in upaths:
            for k in dsl.PROBE_KINDS:
                if chunk[j][0] != k or chunk[j][1] != p:
                    return False
                j += 1
        return chunk[j][0] == 'walk' and chunk[j + 1][0] == 'walk_bu'

    def _consistency_of(self, chunk, upaths):
        ans = {}
        j = 0
        for p in upaths:
            ans[p] = {}
            for k in dsl.PROBE_KINDS:
                ans[p][k] = chunk[j][2]
                j += 1
        walk, walk_bu = chunk[j][2], chunk[j + 1][2]
        uset = set(upaths)
        for p in upaths:
            a = ans[p]
            isf, isd, ex = a['is_file'], a['is_dir'], a['exists']
            if ex != (isf or isd) or (isf and isd):
                return ('exists != is_file or is_dir', [self.relp(p), a])
            par = os.path.dirname(p)
            if ex and p != self.R and par in ans and not ans[par]['is_dir']:
                return ('something exists below a non-directory', [self.relp(p), a, ans[par]])
            ld = a['list_dir']
            if isd:
                if not isinstance(ld, list):
                    return ('list_dir of a directory raises', [self.relp(p), a])
                expect = sorted(os.path.basename(c) for c in uset if os.path.dirname(c) == p and c != p and ans[c]['exists'])
                got = sorted(n for n in ld if os.path.join(p, n) in uset)
                if got != expect:
                    return ('list_dir disagrees with exists of the children', [self.relp(p), ld, expect])
                extra = [n for n in ld if os.path.join(p, n) not in uset and os.path.join(p, n) not in self.masked]
                if extra:
                    return ('list_dir lists a name that must be invisible', [self.relp(p), extra])
            elif isf:
                if ld != '!NotADirectoryError':
                    return ('list_dir of a regular file does not raise NotADirectoryError', [self.relp(p), ld])
            elif ld != '!FileNotFoundError':
                return ('list_dir of a missing path does not raise FileNotFoundError', [self.relp(p), ld])
            gs = a['get_size']
            if ex != (not (isinstance(gs, str) and gs.startswith('!'))):
                return ('get_size succeeds iff exists is violated', [self.relp(p), a])
            if not ex and gs != '!FileNotFoundError':
                return ('get_size of a missing path raises the wrong class', [self.relp(p), gs])
            rd = a['declare_read']
            if isf and isinstance(rd, str) and rd.startswith('!'):
                return ('read of a regular file raises', [self.relp(p), a])
            if isd and rd != '!IsADirectoryError':
                return ('read of a directory does not raise IsADirectoryError', [self.relp(p), rd])
            if not ex and rd != '!FileNotFoundError':
                return ('read of a missing path does not raise FileNotFoundError', [self.relp(p), rd])
        for w in (walk, walk_bu):
            if not isinstance(w, list):
                return ('walk raises', [w])
            dirs = {d: (a, b) for d, a, b in w}
            for p in upaths:
                if ans[p]['is_dir'] and p not in dirs:
                    return ('walk misses a directory', [self.relp(p)])
                if not ans[p]['is_dir'] and p in dirs:
                    return ('walk reports a non-directory', [self.relp(p)])
            for d, (subd, subf) in dirs.items():
                if d not in ans:
                    continue
                exp_d = sorted(os.path.basename(c) for c in uset if os.path.dirname(c) == d and c != d and ans[c]['is_dir'])
                exp_f = sorted(os.path.basename(c) for c in uset if os.path.dirname(c) == d and c != d and ans[c]['is_file'])
                got_d = sorted(n for n in subd if os.path.join(d, n) in uset)
                got_f = sorted(n for n in subf if os.path.join(d, n) in uset)
                if got_d != exp_d or got_f != exp_f:
                    return ('walk disagrees with is_dir/is_file', [self.relp(d), subd, subf, exp_d, exp_f])
        if sorted(map(json.dumps, walk)) != sorted(map(json.dumps, walk_bu)):
            return ('top-down and bottom-up walk differ as sets', [])
        return None

    # ---- C03 ---------------------------------------------------------------------------------------------
    def _check_c03(self, pre, post, rctx, mb, committed, info, prev=None):
        fails = []
        prev = prev or (mb.prev if mb is not None else self.prev)
        called = set(p for p, _ in rctx.calls) if rctx is not None else set()
        managed = {self.cache} | set(prev.outputs) | (called if committed else set())
        nforeign = 0
        for p, v in pre.items():
            if v[0] != 'f' or p in managed:
                continue
            nforeign += 1
            w = post.get(p)
            if w is None or w[0] != 'f':
                fails.append(self._fail('C03.foreign_file', 'foreign file deleted or replaced',
                                        {**info, 'path': self.relp(p)}))
                break
            if w[1] != v[1] or w[2] != v[2]:
                fails.append(self._fail('C03.foreign_file', 'foreign file bytes or mtime changed',
                                        {**info, 'path': self.relp(p)}))
                break
            if w[3] != v[3]:
                fails.append(self._fail('C03.foreign_file', 'foreign file replaced by a copy (inode changed)',
                                        {**info, 'path': self.relp(p)}))
                break
        self.stats['c03_foreign_files_checked'] += nforeign
        removed_any = any(p not in post or post[p][0] != v[0] for p, v in pre.items())
        if removed_any:
            interesting = False
            for p, v in pre.items():
                if p in managed or p in prev.created_dirs or p == self.R:
                    continue
                if p in self.ever_outputs or any(a in prev.created_dirs for a in _ancestors(p, self.R)):
                    interesting = True
                    break
            if interesting:
                self.stats['c03_nontrivial_calls'] += 1
                self.flags.add('c03_nontrivial')
        owned_dirs = set(prev.created_dirs)
        owned_files = set(prev.outputs) | {self.cache}
        for p, v in pre.items():
            if v[0] != 'd' or p in post and post[p][0] == 'd':
                continue
            # directory p disappeared (or became a file)
            if p in called and committed:
                # build_file may replace a directory the previous build created by its output
                if p in owned_dirs and not self._foreign_below(p, pre, owned_dirs, owned_files):
                    continue
            if p not in owned_dirs:
                fails.append(self._fail('C03.dir_removed', 'a directory no build created was removed',
                                        {**info, 'path': self.relp(p)}))
                break
            if self._foreign_below(p, pre, owned_dirs, owned_files):
                fails.append(self._fail('C03.dir_removed', 'a created directory holding foreign content was removed',
                                        {**info, 'path': self.relp(p)}))
                break
        return fails

    def _foreign_below(self, d, pre, owned_dirs, owned_files):
        pref = d + '/'
        for q, v in pre.items():
            if q.startswith(pref):
                if v[0] == 'f' and q not in owned_files:
                    return True
                if v[0] == 'd' and q not in owned_dirs:
                    return True
        return False

    # ---- C01 tree ------------------------------------------------------------------------------------------
    def _cmp_tree(self, clause, exp, post, info):
        for k in sorted(set(exp) | set(post)):
            e = exp.get(k)
            p = post.get(k)
            if e is None or p is None or e[0] != p[0]:
                sig = 'path %s: model %s / real %s' % (_depth_sig(self, k), e and e[0], p and p[0])
                return [self._fail(clause, sig, {**info, 'path': self.relp(k), 'model': e and e[0], 'real': p and p[0]})]
            if e[0] == 'f' and e[1] is not None and e[1] != p[1]:
                return [self._fail(clause, 'file content differs', {**info, 'path': self.relp(k), 'model': e[1].decode('latin1'),
                                                                    'real': p[1].decode('latin1')})]
        return []

    # ---- rollback (C02) ----------------------------------------------------------------------------------------
    def _check_rollback(self, pre, post, rctx, info):
        fails = []
        for k, v in pre.items():
            w = post.get(k)
            if v[0] == 'f':
                if w is None or w[0] != 'f' or w[1] != v[1] or w[2] != v[2]:
                    what = 'missing' if w is None else ('became a directory' if w[0] != 'f' else
                                                        'bytes differ' if w[1] != v[1] else 'mtime differs')
                    role = self._role(k)
                    fails.append(self._fail('C02.file_restore', '%s file %s after rollback' % (role, what),
                                            {**info, 'path': self.relp(k)}))
                    return fails
            else:
                if w is None or w[0] != 'd':
                    fails.append(self._fail('C02.dir_missing', 'directory missing after rollback', {**info, 'path': self.relp(k)}))
                    return fails
        # L4: directories the previous committed build recorded as created may reappear empty - but only where
        # their parent exists (a reappearing *ancestor* that no build recorded would change later builds)
        closure = set()
        for d in sorted(self.mb.prev.created_dirs, key=len):
            par = os.path.dirname(d)
            if (par in pre and pre[par][0] == 'd') or par in closure:
                closure.add(d)
        for k, v in sorted(post.items()):
            if k in pre:
                continue
            if v[0] == 'f':
                rebuilt = any(l['path'] == k for l in rctx.log)
                fails.append(self._fail('C02.leftover_file', 'file left after rollback (%s%s)' % (
                    'former output' if k in self.prev.outputs else 'new path', ', rebuilt by the failed build' if rebuilt else ''),
                    {**info, 'path': self.relp(k)}))
                return fails
            if k not in closure:
                fails.append(self._fail('C02.leftover_dir', 'directory left after rollback', {**info, 'path': self.relp(k)}))
                return fails
            self.stats['l4_dirs_reappeared'] += 1
        return fails

    def _role(self, p):
        if p == self.cache:
            return 'cache'
        if p in self.prev.outputs:
            return 'previous-output'
        return 'foreign'

    # ---- C05 -----------------------------------------------------------------------------------------------------
    def _check_c05(self, mb, versions, pre, post, rctx, info):
        """Decision oracles on the invocation log (both directions).

        backward (C05): every function the library invoked needs a reason from the property's list;
        forward  (C06/C08/C13/C01): every call that from-scratch execution reaches, whose callers were
        all executed, and whose previous record can definitely not be reused, must have been invoked."""
        fails = []
        prev = mb.prev
        pidx = index_forest(prev.forest)

        def intact(n):
            rec = prev.meta.get(n.path)
            cur = pre.get(n.path)
            if rec is None or cur is None or cur[0] != 'f':
                return False
            if n.cmp == 'HASH':
                return rec[0] == cur[1]
            return (len(rec[0]), rec[1]) == (len(cur[1]), cur[2])

        def exists_now(q):
            return q in pre and q not in prev.outputs

        def inv_of(n):
            return 'F:' + n.path if n.kind == 'file' else 'S:%s:%s' % (n.fname, _ct([n.args, n.kwargs]))

        strict = (not self.mutated_since_commit and not getattr(prev, 'overwrote_foreign', False)
                  and not getattr(self, '_fault_fired_now', False) and not getattr(prev, 'had_fault', False)
                  and not self.opts.get('par_any_order')
                  and versions_equal(prev.versions, versions, list(self.prog['funcs'])))
        if strict:
            self.stats['c05_unchanged_rebuilds'] += 1
            if any(n.raised for r in prev.forest for n in r.walk()):
                self.stats['c05_unchanged_rebuilds_with_raised_record'] += 1
                self.flags.add('c05_unchanged_with_raised')
        real_invoked = {l['inv'] for l in rctx.log}
        invoked_paths = {l['path'] for l in rctx.log if l['kind'] == 'F'}
        seen_inv = set()
        changed_fnames = {f for f in self.prog['funcs'] if canon(prev.versions.get(f)) != canon(versions.get(f))}
        kept_root_subtrees = 0
        nested_changed = False

        def visit(node, parent_executed, depth):
            nonlocal kept_root_subtrees, nested_changed
            if node.setup_failed:
                return None
            inv = inv_of(node)
            invoked = inv in real_invoked
            seen_inv.add(inv)
            if parent_executed:
                j = justification(node, pidx, prev.versions, versions, intact, self.masked, exists_now)
                if invoked:
                    self.stats['c05_j_' + (j.split(':')[0] if j else 'NONE')] += 1
                    if j is None:
                        p = pidx[node.key]
                        return self._fail('C05.unjustified', 'unjustified re-execution of a %s' % node.kind,
                                          {**info, 'key': _relkey(self, node.key), 'prev': _reljson(self, p.to_json()),
                                           'cur': _reljson(self, node.to_json())})
                    if j not in ('no-record', 'record-raised'):
                        self.flags.add('c05_refutable')
                        self.stats['c05_refutable_invocations'] += 1
                    if j.startswith('version') and depth > 0:
                        nested_changed = True
                    knock_on = False
                    if j.startswith('trace-differs:read|'):
                        # a METADATA/HASH read of an output that an (allowed) re-execution rewrote in this very
                        # build legitimately answers differently: a consequence, not an unjustified miss
                        q = j.split('|', 1)[1]
                        knock_on = q in invoked_paths and q in mb.outputs
                        if knock_on:
                            self.stats['c05_strict_knock_on_tolerated'] += 1
                    if strict and not knock_on and not (j in ('record-raised', 'nested-setup-failed') or j.startswith('undecidable')):
                        return self._fail('C05.unchanged_rebuild',
                                          'unchanged rebuild re-executes a call that did not raise last time (%s)' % j.split('|')[0],
                                          {**info, 'key': _relkey(self, node.key), 'justification': j})
                else:
                    self.stats['decisions_served_from_cache'] += 1
                    if changed_fnames:
                        kept_root_subtrees += 1
                    if j is not None and not j.startswith('undecidable'):
                        reason = j.split(':')[0]
                        clause = {'version': 'C06.missed_invalidation', 'nested-setup-failed': 'C08.setup_failed_served',
                                  'output-changed': 'C13.missed_change'}.get(reason)
                        if clause is None:
                            clause = 'C13.missed_change' if j.startswith('trace-differs:read') else 'C01.stale_decision'
                        p = pidx.get(node.key)
                        return self._fail(clause, 'a call was served from the cache although its record cannot be reused (%s)' % j.split('|')[0],
                                          {**info, 'key': _relkey(self, node.key), 'reason': j,
                                           'prev': _reljson(self, p.to_json()) if p else None,
                                           'cur': _reljson(self, node.to_json())})
            for e in node.events:
                if isinstance(e, Node):
                    f = visit(e, invoked, depth + 1)
                    if f:
                        return f
            return None

        for root in mb.forest:
            f = visit(root, True, 0)
            if f:
                fails.append(f)
                return fails
        for inv in real_invoked - seen_inv:
            self.stats['c05_invoked_missing_in_model'] += 1
        if changed_fnames:
            self.stats['c06_version_change_builds'] += 1
            if nested_changed and kept_root_subtrees:
                self.flags.add('c06_nontrivial')
                self.stats['c06_nontrivial_builds'] += 1
        # outputs whose function was not invoked keep inode and mtime
        for p in mb.outputs:
            if p in invoked_paths:
                continue
            a, b = pre.get(p), post.get(p)
            if a is None or a[0] != 'f' or b is None or b[0] != 'f':
                continue
            self.stats['c05_outputs_kept_checked'] += 1
            if a[2] != b[2] or a[3] != b[3]:
                fails.append(self._fail('C05.rewrite', 'an output was rewritten although its function was not invoked',
                                        {**info, 'path': self.relp(p)}))
                return fails
        return fails

    def _observed_paths(self, forest, mctx):
        obs = set()
        for r in forest:
            for n in r.walk():
                if n.path:
                    obs.add(n.path)
                for e in n.events:
                    if not isinstance(e, Node):
                        obs.add(e[2])
        for (inv, i), (kind, path, ans) in mctx.trace.items():
            obs.add(path)
        return obs

    # ---- clean ------------------------------------------------------------------------------------------------------
    def clean(self):
        FileBuilder = FB()
        self.step += 1
        info = {'step': self.step, 'op': 'clean'}
        pre = snapshot(self.R)
        had_cache = self.cache in pre
        try:
            FileBuilder.clean(dsl.spell(self.prog.get('spell'), 'clean%d' % self.step, self.cache), BUILD_NAME)
        except Exception as e:
            return [self._fail('C12.tree', 'clean raised %s' % dsl.exc_class(e), {**info, 'tb': traceback.format_exc()[-1500:]})]
        post = snapshot(self.R)
        fails = []
        exp = ModelFS(model_tree(pre))
        self.stats['cleans'] += 1
        if self.cache in exp.t and exp.t[self.cache][0] == 'f':
            self.stats['cleans_with_cache'] += 1
            for p in self.prev.outputs:
                if exp.is_file(p):
                    del exp.t[p]
            del exp.t[self.cache]
            exp.remove_empty_dirs(self.prev.created_dirs)
            clause = 'C12.tree'
        else:
            clause = 'C12.noop'
        expt = {k: (v if v[0] == 'd' else ('f', v[1], v[2])) for k, v in exp.t.items()}
        fails.extend(self._cmp_tree(clause, expt, post, info))
        if not fails:
            # bit-identical survivors (mtime too)
            for k, v in post.items():
                if v[0] == 'f' and pre[k][2] != v[2]:
                    fails.append(self._fail('C12.tree', 'clean changed the mtime of a surviving file', {**info, 'path': self.relp(k)}))
                    break
        fails.extend(self._check_c03(pre, post, None, None, False, info, prev=self.prev if had_cache else Prev()))
        if self.sb.tmp_listing():
            fails.append(self._fail('C12.tmpdir', 'temporary directory left after clean', info))
        self.last = {'clean': True, 'had_cache': had_cache}
        if had_cache and pre[self.cache][0] == 'f':
            if self.commits >= 2 and len(set(self.created_sets[-2:])) > 1:
                self.flags.add('c12_nontrivial')
                self.stats['c12_clean_after_created_dirs_changed'] += 1
            self.prev = Prev()
            self.last_committed = None
            self.after_clean = True
            self.mutated_since_commit = True
            self.stale_allowed = False
        return fails


class _Abort(Exception):
    def __init__(self, fails):
        self.fails = fails


# --------------------------------------------------------------------------------------------------
# C05 justification
# --------------------------------------------------------------------------------------------------

def _implied_possible(hits, events):
    """An implied-duplicate rejection needs the competitor's claim to fall between the validation and the registration of
    the reused record.  It is impossible when the competitor's function was already running before the request began."""
    for rejected, claimed in hits:
        first_call = next((i for i, e in enumerate(events) if e == ('call', rejected)), None)
        first_inv = next((i for i, e in enumerate(events) if e == ('inv', claimed)), None)
        if first_call is not None and first_inv is not None and first_inv < first_call:
            return False
    return True


def _ct(v):
    from .canon import canon_text
    return canon_text(v)


def justification(cur, prev_idx, prev_versions, versions, intact, masked, exists_now=lambda p: False):
    """Why may the function of node ``cur`` be called in this build?  None = no reason found."""
    p = prev_idx.get(cur.key)
    if p is None:
        return 'no-record'
    if p.raised:
        return 'record-raised'
    if p.fname != cur.fname:
        return 'fname'
    if canon([p.args, p.kwargs]) != canon([cur.args, cur.kwargs]):
        return 'args'
    for n in p.walk():
        if canon(prev_versions.get(n.fname)) != canon(versions.get(n.fname)):
            return 'version:' + n.fname
    for n in p.walk():
        if n is not p and n.setup_failed:
            return 'nested-setup-failed'
    for n in p.walk():
        if n.kind == 'file' and not n.raised and not intact(n):
            return 'output-changed'
        if n.kind == 'file' and n.raised and not n.setup_failed and exists_now(n.path):
            # the record says "no file was produced" (comparison result: none); something is there now
            return 'failed-output-now-exists'
    if len(p.events) != len(cur.events) or not all(events_equal(x, y) for x, y in zip(p.events, cur.events)):
        fd = first_difference(p, cur)
        ev = _first_diff_event(p, cur)
        if ev is not None and masked and _l2_affected(ev, masked):
            # the first differing answer depends on a directory that (also) holds the cache file: the model
            # cannot pin down when the library creates / sees it (latitude L2)
            return 'undecidable-L2'
        return 'trace-differs:' + fd
    # latitudes: answers whose value the model cannot pin down
    for n in p.walk():
        for e in n.events:
            if isinstance(e, Node):
                continue
            if e[1] == 'get_size' and e[4] == 'DIR':
                return 'undecidable-L3'
            if masked and _l2_affected(e, masked):
                return 'undecidable-L2'
    return None


def _l2_affected(e, masked):
    if e[1] not in ('list_dir', 'walk', 'walk_bu', 'exists', 'is_dir', 'is_file', 'get_size', 'read'):
        return False
    q = e[2]
    for m in masked:
        if q == m or os.path.dirname(m) == q or (e[1] in ('walk', 'walk_bu') and (m + '/').startswith(q + '/')):
            return True
    return False


def _first_diff_event(p, c):
    """The first simple event of p whose counterpart in c differs only in its answer (None otherwise)."""
    for x, y in zip(p.events, c.events):
        if isinstance(x, Node) and isinstance(y, Node):
            if not events_equal(x, y):
                if (x.key, x.fname, x.raised, x.setup_failed) != (y.key, y.fname, y.raised, y.setup_failed):
                    return None
                return _first_diff_event(x, y)
        elif isinstance(x, Node) or isinstance(y, Node):
            return None
        elif not events_equal(x, y):
            return x if x[1] == y[1] and x[2] == y[2] else None
    return None


def first_difference(p, c):
    """Kind of the first differing event of two recorded traces ('read', 'exists', ..., 'call', 'length')."""
    for x, y in zip(p.events, c.events):
        if isinstance(x, Node) and isinstance(y, Node):
            if not events_equal(x, y):
                if (x.key, x.fname, x.raised, x.setup_failed) != (y.key, y.fname, y.raised, y.setup_failed):
                    return 'call'
                return first_difference(x, y)
        elif isinstance(x, Node) or isinstance(y, Node):
            return 'call'
        elif not events_equal(x, y):
            return (x[1] + '|' + x[2]) if x[1] == y[1] and x[2] == y[2] else 'call'
    return 'length'


def versions_equal(a, b, names):
    return all(canon(a.get(n)) == canon(b.get(n)) for n in names)


# --------------------------------------------------------------------------------------------------
# helpers
# --------------------------------------------------------------------------------------------------

def _ancestors(p, root):
    out = []
    d = os.path.dirname(p)
    while len(d) > len(root):
        out.append(d)
        d = os.path.dirname(d)
    return out


def _dflt(o):
    if isinstance(o, bytes):
        return o.decode('latin1')
    if isinstance(o, (set, frozenset)):
        return sorted(o)
    if isinstance(o, tuple):
        return list(o)
    return str(o)


def _outcome_key(r):
    if r[0] == 'exc':
        return r
    return ('ok', canon(json.loads(json.dumps(r[1]))))


def _short(r):
    return 'raises ' + r[1] if r[0] == 'exc' else 'returns'


def _ans_sig(a):
    if isinstance(a, str) and a.startswith('!'):
        return a
    if isinstance(a, bool):
        return str(a)
    if isinstance(a, list):
        return 'list'
    if isinstance(a, int):
        return 'int'
    return type(a).__name__


def _relans(h, a):
    s = json.dumps(a, default=_dflt)
    return s.replace(h.R + '/', '').replace(h.R, '.').replace(LONG_NAME, '@LONG')


def _reljson(h, j):
    return json.loads(json.dumps(j, default=_dflt).replace(h.R + '/', '').replace(h.R, '.').replace(LONG_NAME, '@LONG'))


def _relkey(h, key):
    return [h.relp(k) if isinstance(k, str) else k for k in key]


def _depth_sig(h, p):
    if p == h.cache:
        return '<cache>'
    return 'depth%d' % h.relp(p).count('/')


# --------------------------------------------------------------------------------------------------
# replay
# --------------------------------------------------------------------------------------------------

def run_scenario(sc, clauses=None, adopt=None):
    """Run a complete scenario; returns (failures, harness stats).  ``clauses``: optional prefix
    filter, e.g. ('C01',)."""
    h = Harness(sc['prog'], sc.get('cache', 'cache.gz'), sc.get('opts'))
    out = []
    try:
        for s in sc['steps']:
            fs = h.apply(list(s))
            if fs:
                if adopt is not None:
                    for f in fs:
                        if clauses and f['clause'].split('.')[0] not in clauses:
                            nc = adopt(h, f)
                            if nc:
                                f['clause'] = nc
                out = fs
                break
        stats = h.stats
    finally:
        h.close()
    if clauses:
        out = [f for f in out if f['clause'].split('.')[0] in clauses]
    for f in out:
        f['case'] = {'prog': sc['prog'], 'cache': sc.get('cache', 'cache.gz'), 'steps': f['case']['steps'],
                     'opts': sc.get('opts') or {}}
    return out, stats
