"""Check runner: shards a property's generated-input search over worker processes, merges coverage
counters, shrinks and saves failures as replay files, applies the committed known-findings list,
writes evidence/<ID>.json and sets the exit status.

Exit status: 0 = property held on everything explored (known findings are reported as
``KNOWN-FINDING:`` lines), 1 = at least one ``VIOLATION property=<id> replay=<path>`` line,
2 = harness error / inconclusive (never a verdict about the code under test).

A property module (``fbverif.props.cNN``) provides::

    ID, LEVEL, RULE, ASSUMPTIONS, TECHNIQUE
    plan(tier, seed)                  -> list of JSON-able shard descriptors
    run_shard(shard)                  -> dict(evaluations, nontrivial=[hash...], samples=[...],
                                              counters={...}, failures=[Failure...], exhaustive=bool?)
    replay(case)                      -> list of Failure (deterministic, no Hypothesis)
    shrink_candidates(case)           -> iterable of strictly smaller cases      (optional)
    vacuity(counters, evaluations, tier) -> None or str                          (optional)

A Failure is ``dict(clause=str, sig=str, case=<JSON>, detail=str)``; ``clause`` names the oracle
clause, ``sig`` a short structural signature (used for bucketing and for known-finding matching).
"""
import collections
import hashlib
import importlib
import json
import multiprocessing
import os
import re
import sys
import time
import traceback

from . import env

KNOWN_FILE = os.path.join(env.VERIF_DIR, 'known_findings.json')
# FBV_OUT_DIR redirects run-time outputs (evidence, replays); used only by the mutation self-tests so
# that runs against scratch copies of the library never overwrite the real evidence files.
OUT_DIR = os.environ.get('FBV_OUT_DIR') or env.VERIF_DIR
REPLAY_DIR = os.path.join(OUT_DIR, 'replays')
EVIDENCE_DIR = os.path.join(OUT_DIR, 'evidence')
REGRESS_DIR = os.path.join(env.VERIF_DIR, 'regress')


class HarnessError(Exception):
    pass


def case_hash(case):
    return hashlib.sha256(json.dumps(case, sort_keys=True, default=str).encode()).hexdigest()[:12]


def small_hash(obj):
    return int(hashlib.blake2b(json.dumps(obj, sort_keys=True, default=str).encode(),
                               digest_size=8).hexdigest(), 16)


def failure(clause, sig, case, detail):
    return {'clause': clause, 'sig': sig, 'case': case, 'detail': str(detail)[:4000]}


# ------------------------------------------------------------------------------------------------
# known findings
# ------------------------------------------------------------------------------------------------

def load_known(prop_id):
    if not os.path.exists(KNOWN_FILE):
        return []
    with open(KNOWN_FILE) as f:
        data = json.load(f)
    return [e for e in data.get('findings', []) if e.get('property') == prop_id]


def matches_known(entry, fail):
    if entry.get('status') != 'open':
        return False
    if entry.get('clause') != fail['clause']:
        return False
    rx = entry.get('sig_regex')
    return bool(rx) and re.search(rx, fail['sig']) is not None


# ------------------------------------------------------------------------------------------------
# worker side
# ------------------------------------------------------------------------------------------------

def _shard_entry(args):
    modname, shard = args
    try:
        mod = importlib.import_module(modname)
        t0 = time.time()
        res = mod.run_shard(shard)
        res['wall_s'] = time.time() - t0
        res['nontrivial'] = list(res.get('nontrivial', ()))
        res['counters'] = dict(res.get('counters', {}))
        return res
    except BaseException:
        return {'harness_error': traceback.format_exc()}


# ------------------------------------------------------------------------------------------------
# shrinking (greedy delta debugging over module-supplied candidates)
# ------------------------------------------------------------------------------------------------

def shrink(mod, fail, budget_s):
    if not hasattr(mod, 'shrink_candidates'):
        return fail
    t_end = time.time() + budget_s
    best = fail
    improved = True
    while improved and time.time() < t_end:
        improved = False
        for cand in mod.shrink_candidates(best['case']):
            if time.time() >= t_end:
                break
            try:
                fs = mod.replay(cand)
            except Exception:
                continue
            same = [f for f in fs if f['clause'] == best['clause']]
            if same:
                same.sort(key=lambda f: f['sig'] != best['sig'])
                best = same[0]
                improved = True
                break
    return best


def save_replay(prop_id, fail, seed, tier, original=None):
    os.makedirs(REPLAY_DIR, exist_ok=True)
    name = '%s-%s.json' % (prop_id, case_hash([fail['clause'], fail['case']]))
    path = os.path.join(REPLAY_DIR, name)
    with open(path, 'w') as f:
        json.dump({'property': prop_id, 'clause': fail['clause'], 'sig': fail['sig'],
                   'detail': fail['detail'], 'seed': seed, 'tier': tier, 'case': fail['case'],
                   'unshrunk_case': original['case'] if original is not None and original['case'] != fail['case'] else None},
                  f, indent=1, sort_keys=True, default=str)
        f.write('\n')
    return os.path.relpath(path, env.VERIF_DIR) if OUT_DIR == env.VERIF_DIR else path


# ------------------------------------------------------------------------------------------------
# main
# ------------------------------------------------------------------------------------------------

def write_evidence(mod, tier, seed, coverage, wall, nviol, extra_assumptions=()):
    os.makedirs(EVIDENCE_DIR, exist_ok=True)
    ev = {
        'property_id': mod.ID,
        'tier': tier,
        'seed': seed,
        'level': mod.LEVEL,
        'coverage': coverage,
        'assumptions': list(getattr(mod, 'ASSUMPTIONS', [])) + list(extra_assumptions),
        'wall_s': round(wall, 2),
        'violations': nviol,
    }
    path = os.path.join(EVIDENCE_DIR, '%s.json' % mod.ID)
    tmp = path + '.tmp'
    with open(tmp, 'w') as f:
        json.dump(ev, f, indent=1, sort_keys=True, default=str)
        f.write('\n')
    os.replace(tmp, path)


def load_case_file(path):
    with open(path) as f:
        data = json.load(f)
    return data['case'] if isinstance(data, dict) and 'case' in data else data


def do_replay(mod, path):
    case = load_case_file(path)
    fails = mod.replay(case)
    if not fails:
        print('replay: no violation reproduced for %s' % path)
        return 0
    for f in fails:
        print('replay: %s %s\n  %s' % (f['clause'], f['sig'], f['detail'][:2000]))
    print('VIOLATION property=%s replay=%s' % (mod.ID, path))
    return 1


def run_check(prop_id, tier, seed, workers=None, replay=None):
    modname = 'fbverif.props.%s' % prop_id.lower()
    mod = importlib.import_module(modname)
    if replay:
        return do_replay(mod, replay)

    t0 = time.time()
    known = load_known(prop_id)
    nworkers = workers or min(16, os.cpu_count() or 1)

    # ---- regression tier: saved cases (fixed findings, earlier witnesses) must pass ---------------
    failures = []
    regress_cases = 0
    rdir = os.path.join(REGRESS_DIR, prop_id)
    if os.path.isdir(rdir):
        for name in sorted(os.listdir(rdir)):
            if name.endswith('.json'):
                regress_cases += 1
                case = load_case_file(os.path.join(rdir, name))
                for f in mod.replay(case):
                    f = dict(f)
                    f['origin'] = 'regress/%s/%s' % (prop_id, name)
                    failures.append(f)

    # ---- known open findings: replay each witness ------------------------------------------------
    known_lines = []
    for e in known:
        if e.get('status') != 'open':
            continue
        wpath = os.path.join(env.VERIF_DIR, e['witness'])
        still = False
        try:
            for f in mod.replay(load_case_file(wpath)):
                if matches_known(e, f):
                    still = True
        except Exception:
            raise HarnessError('known-finding witness %s cannot be replayed:\n%s'
                               % (e['witness'], traceback.format_exc()))
        if still:
            known_lines.append('KNOWN-FINDING: property=%s %s [%s; witness %s]'
                               % (prop_id, e['what'], e['slug'], e['witness']))
        else:
            print('note: known finding %s no longer reproduces from its witness %s'
                  % (e['slug'], e['witness']))

    # ---- generated-input search --------------------------------------------------------------------
    shards = mod.plan(tier, seed)
    ctx = multiprocessing.get_context('fork')
    results = []
    if nworkers == 1 or len(shards) == 1:
        results = [_shard_entry((modname, s)) for s in shards]
    else:
        with ctx.Pool(min(nworkers, len(shards)), maxtasksperchild=None) as pool:
            for res in pool.imap_unordered(_shard_entry, [(modname, s) for s in shards], chunksize=1):
                results.append(res)

    evaluations = 0
    nontrivial = set()
    counters = collections.Counter()
    samples = []
    exhaustive = None
    for res in results:
        if 'harness_error' in res:
            raise HarnessError('worker failed:\n' + res['harness_error'])
        evaluations += res['evaluations']
        nontrivial.update(res['nontrivial'])
        counters.update(res['counters'])
        samples.extend(res.get('samples', [])[:3])
        failures.extend(res.get('failures', []))
        if 'exhaustive' in res:
            exhaustive = res['exhaustive'] if exhaustive is None else (exhaustive and res['exhaustive'])
    samples = samples[:6]

    # ---- triage failures ---------------------------------------------------------------------------
    excluded = collections.Counter()
    buckets = collections.OrderedDict()
    for f in failures:
        hit = [e for e in known if matches_known(e, f)]
        if hit:
            excluded[hit[0]['slug']] += 1
            continue
        buckets.setdefault((f['clause'], f['sig']), []).append(f)

    violation_lines = []
    budget = 20 if tier == 'quick' else 90
    for (clause, sig), fs in list(buckets.items())[:8]:
        smallest = min(fs, key=lambda f: len(json.dumps(f['case'], default=str)))
        try:
            shrunk = shrink(mod, smallest, budget / max(1, min(8, len(buckets))))
        except Exception:
            shrunk = smallest
        # a shrunk case may have drifted into a known finding: keep the unshrunk one then
        if any(matches_known(e, shrunk) for e in known):
            shrunk = smallest
        path = save_replay(prop_id, shrunk, seed, tier, smallest)
        print('violation: clause=%s sig=%s cases=%d\n  %s' % (clause, shrunk['sig'], len(fs),
                                                              shrunk['detail'][:1500].replace('\n', '\n  ')))
        violation_lines.append('VIOLATION property=%s replay=%s' % (prop_id, path))
    if len(buckets) > 8:
        print('note: %d further failure buckets not shrunk' % (len(buckets) - 8))

    # ---- vacuity guard -----------------------------------------------------------------------------
    vac = None
    if hasattr(mod, 'vacuity'):
        vac = mod.vacuity(counters, evaluations, tier)

    coverage = {
        'evaluations': evaluations,
        'distinct_nontrivial': len(nontrivial),
        'rule': mod.RULE,
        'samples': samples,
        'counters': dict(sorted(counters.items())),
        'regression_cases_replayed': regress_cases,
        'known_findings_reported': len(known_lines),
        'known_finding_cases_excluded': dict(excluded),
        'failure_buckets': len(buckets),
        'workers': nworkers,
        'shards': len(shards),
    }
    if exhaustive is not None:
        coverage['exhaustive'] = bool(exhaustive)
    wall = time.time() - t0
    write_evidence(mod, tier, seed, coverage, wall, len(violation_lines))

    for line in known_lines:
        print(line)
    print('%s tier=%s seed=%d evaluations=%d distinct_nontrivial=%d buckets=%d wall=%.1fs'
          % (prop_id, tier, seed, evaluations, len(nontrivial), len(buckets), wall))
    interesting = {k: v for k, v in sorted(counters.items())}
    print('counters: ' + json.dumps(interesting))
    if violation_lines:
        for line in violation_lines:
            print(line)
        return 1
    if vac:
        raise HarnessError('vacuous run: ' + vac)
    return 0


def main(argv=None):
    import argparse
    ap = argparse.ArgumentParser(prog='check')
    ap.add_argument('property')
    ap.add_argument('--tier', default=os.environ.get('VERIF_TIER', 'quick'), choices=['quick', 'thorough'])
    ap.add_argument('--replay')
    ap.add_argument('--workers', type=int)
    ap.add_argument('--seed', type=int)
    a = ap.parse_args(argv)
    seed = a.seed if a.seed is not None else env.seed_from_env()
    try:
        rc = run_check(a.property.upper(), a.tier, seed, a.workers, a.replay)
    except HarnessError as e:
        print('HARNESS-ERROR: %s' % e)
        rc = 2
    except Exception:
        print('HARNESS-ERROR: unexpected exception in the runner\n' + traceback.format_exc())
        rc = 2
    sys.stdout.flush()
    return rc
