"""Program DSL and its interpreter.  One interpreter drives both the real FileBuilder and the
reference model, so both sides provably run the same user program.

A program is JSON::

    {"root": [stmt...], "funcs": {name: {"kind": "file"|"sub", "body": [stmt...]}}, "universe": [rel paths]}

Statements (paths are absolute once the harness has bound the program to a sandbox)::

    ["q", kind, path, cmp]                 query; kind in QUERY_KINDS; cmp METADATA|HASH (reads only)
    ["bf", path, func, args, cmp, catch]   build_file_with_comparison; catch: swallow the exception
    ["sb", func, args, catch]              subbuild
    ["if", ["q", k, path, cmp], then, else]  data-dependent control flow (k in exists/is_file/is_dir)
    ["raise"]                              raise UserError
    ["write"]                              (file functions) create the output file
    ["ret_nonjson"]                        make the function return a non-JSON value
    ["probe"]                              every query kind on every universe path (C04)
    ["par", [[stmt...], ...]]              run the blocks in threads on the same builder (C09; see sched.py)

Every generated function returns ``{"f": name, "v": version tag, "a": args, "o": observations}`` so
that each observation is data-flow visible in results; ``write`` embeds a digest of the
observations made so far in the file content.
"""
import hashlib
import json
import os
import threading

from .canon import canon_text
from .model import USER_EXC, Crash, CrashBase, UserError, version_tag

QUERY_KINDS = ['exists', 'is_file', 'is_dir', 'list_dir', 'walk', 'walk_bu', 'get_size', 'read_text',
               'read_binary', 'declare_read']
READ_KINDS = ('read_text', 'read_binary', 'declare_read')
PROBE_KINDS = ('is_file', 'is_dir', 'exists', 'list_dir', 'get_size', 'declare_read')


def ctext(v):
    return json.dumps(v, sort_keys=True, default=str)


class Ctx:
    """Per-build execution context (one for the real run, one for the model run)."""

    def __init__(self, mode, prog, versions, step, universe, masked=(), crash_at=None):
        self.mode = mode
        self.prog = prog
        self.versions = versions
        self.step = step
        self.universe = universe
        self.masked = set(masked)
        self.crash_at = crash_at
        self.boundary = 0
        self.crash_obj = None
        self.log = []            # invocations: dicts
        self.trace = {}          # (invocation key, idx) -> (kind, path, answer)
        self._qidx = {}
        self.raised_objs = []
        self.inside_fail = []    # C10: violations observed from inside file functions (real mode)
        self.written = {}        # path -> bytes written by generated functions (real mode)
        self.bf_seen = set()
        self.hits = 0
        # fault injection (C14): see run_call
        self.fault_mode = None        # None | 'catch' (at the call in progress) | 'catch_root' (by the root function) | 'nocatch'
        self.call_stack = []
        self.fault_call = None        # inv of the innermost generated call during which the fault fired ('<top>' if none)
        self.fault_handled = False
        self.uncatchable = None
        self.calls = []          # real mode: (path, status) for every build_file call issued
        self.user_exc_identity = []   # (raised obj id, propagated obj id) mismatches
        self.extra = {}

    def vtag(self, fname):
        return version_tag(self.versions, fname)

    def mtime_for(self, path):
        h = int(hashlib.sha256(path.encode()).hexdigest()[:6], 16)
        return (1_000_000_000 + self.step * 1000) * 1_000_000_000 + h * 1000

    def tick(self):
        """Statement boundary: an enumerated crash point."""
        k = self.boundary
        self.boundary += 1
        if self.crash_at is not None and k == self.crash_at:
            self.crash_obj = (CrashBase if self.extra.get('crash_base') else Crash)('crash@%d' % k)
            raise self.crash_obj

    def record_trace(self, inv, kind, path, answer):
        i = self._qidx.get(inv, 0)
        self._qidx[inv] = i + 1
        self.trace[(inv, i)] = (kind, path, answer)


def exc_class(e):
    if isinstance(e, (Crash, CrashBase)):
        return 'Crash'
    if isinstance(e, UserError):
        return 'UserError'
    if isinstance(e, (FileNotFoundError, NotADirectoryError, IsADirectoryError, FileExistsError, PermissionError)):
        return type(e).__name__
    if isinstance(e, OSError):
        return 'OSError:' + type(e).__name__
    if type(e) is TypeError:
        return 'TypeError'
    if type(e) is RuntimeError:
        return 'RuntimeError'
    return 'Exception:' + type(e).__name__


def norm_answer(ctx, kind, path, r):
    masked = ctx.masked
    if kind == 'list_dir':
        return sorted(n for n in r if os.path.join(path, n) not in masked)
    if kind in ('walk', 'walk_bu'):
        out = []
        links = getattr(ctx, 'linkdirs', ())
        for d, a, b in r:
            # documented: walk does not descend into sub-directories that are symbolic links (the model treats a linked
            # directory as a plain one, so its tuples for such a directory and everything below it are dropped)
            if any((d == L or d.startswith(L + '/')) and not (path == L or path.startswith(L + '/')) for L in links):
                continue
            a2 = sorted(n for n in a if os.path.join(d, n) not in masked)
            b2 = sorted(b)
            if d in masked and not a2 and not b2:
                continue
            out.append([d, a2, b2])
        return sorted(out)
    return r


def check_walk_order(r, top_down):
    """The documented constraint: a directory's tuple comes before (top_down) / after the tuples of
    the directories it contains."""
    pos = {d: i for i, (d, _a, _b) in enumerate(r)}
    for d, i in pos.items():
        parent = os.path.dirname(d)
        if parent in pos and parent != d:
            if top_down and not pos[parent] < i:
                return False
            if not top_down and not pos[parent] > i:
                return False
    return True


SPELLINGS = ('dslash', 'dot', 'dotdot', 'trail', 'updown', 'lead')


def spell(seed, salt, path):
    """Another spelling of the absolute normalised ``path`` with the same os.path.abspath (metamorphic relation: the
    library documents that every filename is taken as ``os.path.abspath(os.fsdecode(filename))``, so a spelling must
    change nothing).  A pure function of (seed, salt, path): no counters, so thread schedules cannot shift it.
    ``dotdot`` steps through a component that does not exist, which the operating system itself would refuse."""
    if not seed or not isinstance(path, str) or path.count('/') < 2:
        return path
    h = int(hashlib.sha256(('%s|%s|%s' % (seed, salt, path)).encode()).hexdigest()[:8], 16)
    if h % 5 < 2:
        return path
    k = SPELLINGS[(h // 5) % len(SPELLINGS)]
    d, base = path.rsplit('/', 1)
    if k == 'dslash':
        return d + '//' + base
    if k == 'dot':
        return d + '/./' + base
    if k == 'dotdot':
        return d + '/zz-none/../' + base
    if k == 'trail':
        return path + '/'
    if k == 'updown':
        return path + '/../' + base
    return '/.' + path          # lead


def spelled(ctx, salt, path):
    if ctx.mode != 'real':
        return path
    return spell(ctx.prog.get('spell'), salt, path)


def do_query(ctx, b, kind, path, cmp):
    """Issue one query on builder b; returns the normalised, JSON-able answer ('!Class' on OSError)."""
    npath = path
    path = spelled(ctx, kind, npath)
    try:
        return _do_query(ctx, b, kind, path, cmp, npath)
    except OSError as e:
        return '!' + exc_class(e)


def _do_query(ctx, b, kind, path, cmp, npath):
    if True:
        if kind in ('exists', 'is_file', 'is_dir', 'list_dir'):
            r = getattr(b, kind)(path)
            if kind == 'list_dir':
                r = list(r)
        elif kind == 'get_size':
            r = b.get_size(path)
            path = npath
            if ctx.mode == 'real' and os.path.isdir(path):
                r = 'DIR'
        elif kind == 'walk':
            r = b.walk(path)
            if ctx.mode == 'real' and not check_walk_order(r, True):
                ctx.extra.setdefault('walk_order', []).append((path, True))
        elif kind == 'walk_bu':
            r = b.walk(path, top_down=False) if ctx.mode == 'real' else b.walk(path, False)
            if ctx.mode == 'real' and not check_walk_order(r, False):
                ctx.extra.setdefault('walk_order', []).append((path, False))
        elif kind in READ_KINDS:
            if ctx.mode == 'model':
                r = getattr(b, kind)(path, cmp)
            else:
                from file_builder import FileComparison
                r = getattr(b, kind)(path, FileComparison[cmp])
                path = npath
                if kind == 'declare_read':
                    with open(path, 'rb') as f:
                        r = f.read()
                else:
                    with r as f:
                        r = f.read()
                if isinstance(r, str):
                    r = r.encode('latin1')
            r = r.decode('latin1')
        else:
            raise ValueError(kind)
        return norm_answer(ctx, kind, npath, r)


def run_block(ctx, b, inv, fname, args, stmts, obs, filename):
    for s in stmts:
        ctx.tick()
        op = s[0]
        if op == 'qa':
            # atomic query (C09): executed without preemption; used for paths another task is working on, whose
            # answer is the same at every instant (the target of a function that always fails is never visible)
            _, kind, path, cmp = s
            if ctx.mode == 'real':
                from . import sched
                with sched.no_preemption():
                    a = do_query(ctx, b, kind, path, cmp)
            else:
                a = do_query(ctx, b, kind, path, cmp)
            obs.append([kind, path, a])
            ctx.record_trace(inv, kind, path, a)
            continue
        if op == 'qn':
            # racy query (C09): executed with preemption on a path another task is working on.  Simple operations are
            # documented as not atomic under concurrency, so the *answer* is not judged (recorded as a token in both
            # modes); what the query may not do is leave a durable trace (directory bookkeeping, cache contents)
            _, kind, path, cmp = s
            do_query(ctx, b, kind, path, cmp)
            obs.append([kind, path, 'RACY'])
            ctx.record_trace(inv, kind, path, 'RACY')
            continue
        if op == 'q':
            _, kind, path, cmp = s
            a = do_query(ctx, b, kind, path, cmp)
            obs.append([kind, path, a])
            ctx.record_trace(inv, kind, path, a)
        elif op == 'probe':
            if ctx.mode == 'model':
                mb = b.mb
                ctx.extra.setdefault('probe_points', []).append(
                    (inv, bool(mb.in_progress or mb.failed_outputs), bool(mb.stale_outputs or mb.stale_dirs)))
            for path in ctx.universe:
                if path in ctx.masked:
                    continue
                for kind in PROBE_KINDS:
                    a = do_query(ctx, b, kind, path, 'METADATA')
                    ctx.record_trace(inv, kind, path, a)
            for kind in ('walk', 'walk_bu'):
                a = do_query(ctx, b, kind, ctx.universe[0], None)
                ctx.record_trace(inv, kind, ctx.universe[0], a)
        elif op == 'if':
            _, q, th, el = s
            a = do_query(ctx, b, q[1], q[2], q[3])
            obs.append(['if', q[1], q[2], a])
            ctx.record_trace(inv, q[1], q[2], a)
            run_block(ctx, b, inv, fname, args, th if a is True else el, obs, filename)
        elif op == 'raise':
            e = USER_EXC[s[1] if len(s) > 1 else None](fname)
            ctx.raised_objs.append(e)
            raise e
        elif op == 'write':
            content = ('%s|%s|%s|%s' % (fname, ctx.vtag(fname), ctext(args),
                                        hashlib.sha256(ctext(obs).encode()).hexdigest()[:8])).encode()
            mt = ctx.mtime_for(filename)
            if ctx.mode == 'real':
                if os.path.lexists(filename):
                    ctx.inside_fail.append(('target present when the function writes', filename))
                from . import sched as _sched
                if _sched.ACTIVE is not None and _sched.ACTIVE.managed():
                    # under the scheduler the function writes its output in two steps with a scheduling point in
                    # between, so that other threads can run while the file is half-written
                    with open(filename, 'wb') as f:
                        f.write(content[:len(content) // 2])
                    _sched.hook('user.write', (filename,))
                    with open(filename, 'ab') as f:
                        f.write(content[len(content) // 2:])
                else:
                    with open(filename, 'wb') as f:
                        f.write(content)
                os.utime(filename, ns=(mt, mt))
                ctx.written[filename] = content
            else:
                b.pending = (content, mt)
        elif op == 'ret_nonjson':
            ctx.extra.setdefault('nonjson', set()).add(inv)
        elif op in ('bf', 'sb'):
            run_call(ctx, b, s, obs)
        elif op in EXT_STATEMENTS:
            EXT_STATEMENTS[op](ctx, b, inv, fname, args, s, obs, filename)
        else:
            raise ValueError(op)
    ctx.tick()


EXT_STATEMENTS = {}


def run_call(ctx, b, s, obs):
    op = s[0]
    if op == 'bf':
        _, path, fn, a, cmp, catch = s[:6]
        kw = s[6] if len(s) > 6 else {}
    else:
        _, fn, a, catch = s[:4]
        kw = s[4] if len(s) > 4 else {}
        path = None
    n0 = len(ctx.log)
    dup = False
    if op == 'bf':
        dup = path in ctx.bf_seen
        ctx.bf_seen.add(path)
        inv = 'F:' + str(path)
    else:
        inv = 'S:%s:%s' % (fn, canon_text([json.loads(json.dumps(list(a))), json.loads(json.dumps(kw))]))
    ctx.call_stack.append(inv)
    ctx.extra.setdefault('events', []).append(('call', inv))        # global order of requests and invocations
    if ctx.extra.get('injector') is not None:
        ctx.extra.setdefault('call_marks', []).append(ctx.extra['injector'].count)
    try:
        _run_call_inner(ctx, b, s, obs, op, path, fn, a, kw, catch, cmp if op == 'bf' else None, n0, dup, inv)
    finally:
        ctx.call_stack.pop()


def _run_call_inner(ctx, b, s, obs, op, path, fn, a, kw, catch, cmp, n0, dup, inv):
    try:
        if op == 'bf':
            if ctx.mode == 'model':
                c = cmp
            else:
                from file_builder import FileComparison
                c = FileComparison[cmp]
            if ctx.mode == 'real' and cmp == 'METADATA' and (sum(map(ord, fn)) + len(path)) % 2 == 0:
                # the convenience wrapper (METADATA is its default comparison); the choice is a function of the call
                r = b.build_file(spelled(ctx, 'bf', path), fn, make_func(ctx, fn, path), *a, **kw)
            else:
                r = b.build_file_with_comparison(spelled(ctx, 'bf', path), c, fn, make_func(ctx, fn, path), *a, **kw)
            if ctx.mode == 'real':
                ctx.calls.append((path, 'ok'))
                post_bf_check(ctx, path, True, None, False)
        else:
            r = b.subbuild(fn, make_func(ctx, fn), *a, **kw)
        me = threading.get_ident()
        mine = [l for l in ctx.log[n0:] if l['tid'] == me]
        if not (mine and mine[0]['fname'] == fn and mine[0]['path'] == path):
            ctx.hits += 1        # returned without calling the function: served from the cache
        if ctx.fault_call == inv and not ctx.fault_handled and ctx.mode == 'real':
            ctx.fault_handled = True
            ctx.extra['fault_swallowed'] = inv     # the call during which the fault fired returned normally
        obs.append([op, fn, r])
    except Exception as e:
        if ctx.fault_call == inv and not ctx.fault_handled:
            # the exception that results from the injected fault leaves the call in progress
            ctx.fault_handled = True
            if op == 'bf' and ctx.mode == 'real':
                ctx.calls.append((path, 'fault'))
            if ctx.fault_mode == 'nocatch' or (ctx.fault_mode == 'catch_root' and len(ctx.call_stack) > 1):
                ctx.uncatchable = e
                raise
            obs.append([op, fn, '!fault'])
            if getattr(ctx, 'fault_retry', False):
                # user code that retries the call after a (transient) OS error
                _run_call_inner(ctx, b, s, obs, op, path, fn, a, kw, catch, cmp, len(ctx.log), False, inv)
            return
        if ctx.uncatchable is not None and e is ctx.uncatchable:
            if ctx.fault_mode == 'catch_root' and len(ctx.call_stack) == 1:
                # the exception passed through every nested function; the root build function catches it
                if op == 'bf' and ctx.mode == 'real':
                    ctx.calls.append((path, 'fault'))
                ctx.uncatchable = None
                obs.append([op, fn, '!fault'])
                return
            if op == 'bf' and ctx.mode == 'real':
                ctx.calls.append((path, 'fault-passing-through'))      # the path was passed to build_file in this build
            raise
        if op == 'bf' and ctx.mode == 'real':
            ctx.calls.append((path, exc_class(e)))
            me = threading.get_ident()
            invoked = any(l['path'] == path and l['tid'] == me for l in ctx.log[n0:])
            if invoked and not dup:
                post_bf_check(ctx, path, False, e, True)
        if isinstance(e, Crash) or not catch:
            raise
        obs.append([op, fn, '!' + exc_class(e)])


def post_bf_check(ctx, path, ok, exc, invoked):
    """C10, observed on the real file system right after build_file returned / raised."""
    if ok:
        if not os.path.isfile(path) or os.path.islink(path):
            ctx.inside_fail.append(('build_file returned but the target is not a regular file', path))
        elif path in ctx.written:
            with open(path, 'rb') as f:
                if f.read() != ctx.written[path]:
                    ctx.inside_fail.append(('build_file returned but the target does not hold what was written', path))
        if not os.path.isdir(os.path.dirname(path)):
            ctx.inside_fail.append(('build_file returned but the parent directory is missing', path))
    elif invoked:
        # the function ran and failed (raised / non-JSON / did not create): nothing may be left at the path
        if os.path.lexists(path):
            ctx.inside_fail.append(('build_file raised %s after calling the function but the target still exists'
                                    % exc_class(exc), path))


def make_func(ctx, fname, expect_path=None):
    spec = ctx.prog['funcs'][fname]
    is_file = spec['kind'] == 'file'

    def body(b, filename, args, kwargs):
        if is_file:
            inv = 'F:' + str(filename)
        else:
            inv = 'S:%s:%s' % (fname, canon_text([list(args), kwargs]))
        ctx.extra.setdefault('events', []).append(('inv', inv))
        ctx.log.append({'step': ctx.step, 'fname': fname, 'kind': 'F' if is_file else 'S',
                        'path': filename, 'args': canon_text([list(args), kwargs]), 'inv': inv,
                        'tid': threading.get_ident()})
        if is_file and ctx.mode == 'real':
            if not (isinstance(filename, str) and os.path.isabs(filename) and os.path.normpath(filename) == filename):
                ctx.inside_fail.append(('function received a non-absolute/non-normalised path', repr(filename)))
            elif expect_path is not None and filename != os.path.abspath(expect_path):
                # (the library never resolves symbolic links: the path is the one requested, made absolute and normalised)
                ctx.inside_fail.append(('function received another path than the one requested', repr(filename)))
            if os.path.lexists(filename):
                ctx.inside_fail.append(('target exists when the function starts', filename))
            if not os.path.isdir(os.path.dirname(filename)):
                ctx.inside_fail.append(('parent directory missing when the function starts', filename))
        obs = []
        allargs = list(args) + ([kwargs] if kwargs else [])
        run_block(ctx, b, inv, fname, allargs, spec['body'], obs, filename)
        if inv in ctx.extra.get('nonjson', ()):
            return {'f': fname, 'bad': {1, 2}}
        return {'f': fname, 'v': ctx.vtag(fname), 'a': allargs, 'o': obs}

    if is_file:
        def f(b, filename, *args, **kwargs):
            return body(b, filename, args, kwargs)
    else:
        def f(b, *args, **kwargs):
            return body(b, None, args, kwargs)
    return f


def root_func(ctx):
    def f(b):
        obs = []
        run_block(ctx, b, '<root>', '<root>', [], ctx.prog['root'], obs, None)
        return obs
    return f


# --------------------------------------------------------------------------------------------------
# program utilities
# --------------------------------------------------------------------------------------------------

def bind_program(prog, ap):
    """Return a copy of prog with relative paths made absolute by ``ap``."""
    def conv(stmts):
        out = []
        for s in stmts:
            s = list(s)
            if s[0] in ('q', 'qa', 'qn'):
                s[2] = ap(s[2])
            elif s[0] == 'bf':
                s[1] = ap(s[1])
            elif s[0] == 'if':
                s[1] = list(s[1])
                s[1][2] = ap(s[1][2])
                s[2] = conv(s[2])
                s[3] = conv(s[3])
            elif s[0] == 'par':
                s[1] = [conv(t) for t in s[1]]
            elif s[0] in BIND_EXT:
                s = BIND_EXT[s[0]](s, ap, conv)
            out.append(s)
        return out
    return {'root': conv(prog['root']),
            'alt_roots': [conv(r) for r in prog.get('alt_roots', [])],
            'funcs': {k: {'kind': v['kind'], 'body': conv(v['body'])} for k, v in prog['funcs'].items()},
            'universe': list(prog.get('universe', [])),
            'spell': prog.get('spell', 0)}


BIND_EXT = {}


def iter_stmts(stmts):
    for s in stmts:
        yield s
        if s[0] == 'if':
            yield from iter_stmts(s[2])
            yield from iter_stmts(s[3])
        elif s[0] == 'par':
            for t in s[1]:
                yield from iter_stmts(t)


def program_size(prog):
    n = len(list(iter_stmts(prog['root'])))
    for f in prog['funcs'].values():
        n += len(list(iter_stmts(f['body'])))
    return n


# --------------------------------------------------------------------------------------------------
# par: run blocks as tasks in threads on the same builder (C08 / C09 / C17)
# --------------------------------------------------------------------------------------------------

def _stmt_par(ctx, b, inv, fname, args, s, obs, filename):
    blocks = s[1]
    task_obs = [[] for _ in blocks]

    def make_task(i):
        def task():
            run_block(ctx, b, '%s#t%d' % (inv, i), fname, args, blocks[i], task_obs[i], filename)
        return task

    if ctx.mode == 'model':
        # sequential reference: task order; the first exception (by task index) propagates after all ran
        first_exc = None
        for i in (ctx.extra.get('par_order') or range(len(blocks))):
            try:
                make_task(i)()
            except Exception as e:
                if first_exc is None:
                    first_exc = e
        results_exc = first_exc
    else:
        from . import sched
        sc = sched.Sched(ctx.extra.get('sched_spec'))
        results = sc.run_all([make_task(i) for i in range(len(blocks))])
        ctx.extra.setdefault('sched_runs', []).append({'decisions': sc.n, 'switches': len(sc.switches),
                                                       'landed': sc.preempt_landed[:8], 'deadlock': sc.deadlocked,
                                                       'labels': sc.labels})
        results_exc = None
        for r in results:
            if r is not None and r[0] == 'exc':
                if isinstance(r[1], sched.Deadlock) or sc.deadlocked:
                    ctx.extra['deadlock'] = True
                if results_exc is None:
                    results_exc = r[1]
    # tasks are independent by construction: their observations are compared as a multiset
    obs.append(['par', sorted(task_obs, key=lambda o: json.dumps(o, sort_keys=True, default=str))])
    if results_exc is not None:
        raise results_exc


EXT_STATEMENTS['par'] = _stmt_par
