"""Reference JSON semantics, written independently of file_builder.json_util.

``canon(v)``      canonical form of the JSON *value* denoted by v (after the JSON round trip):
                  two Python objects denote the same JSON value iff their canon() are equal.
                  Numbers are exact rationals (1 == 1.0, -0.0 == 0, 2**53+1 != float(2**53+1)),
                  booleans are tagged apart from numbers, tuples are lists, dict keys are
                  stringified the way json.dumps does and key order is irrelevant.
``strict_eq``     type-strict deep equality (int vs float, sign of zero, list vs tuple, key set).
``roundtrip``     json.loads(json.dumps(v)).
``canon_text``    a stable text rendering of canon(v) (used as version tag in generated programs).
"""
import json
import math
from fractions import Fraction


def key_str(k):
    """The string json.dumps uses for a dict key (reference: the json module itself)."""
    return next(iter(json.loads(json.dumps({k: None}))))


def canon(v):
    if v is None:
        return ('null',)
    if isinstance(v, bool):
        return ('bool', bool(v))
    if isinstance(v, int):
        return ('num', Fraction(int(v)))
    if isinstance(v, float):
        if math.isinf(v):
            return ('num', 'inf' if v > 0 else '-inf')
        if math.isnan(v):
            return ('nan',)
        return ('num', Fraction(v))
    if isinstance(v, str):
        return ('str', str(v))
    if isinstance(v, (list, tuple)):
        return ('list', tuple(canon(e) for e in v))
    if isinstance(v, dict):
        items = {}
        for k, sub in v.items():
            items[key_str(k)] = canon(sub)   # later keys win, as in json.loads
        return ('dict', tuple(sorted(items.items())))
    raise TypeError('not a JSON value: %r' % (type(v),))


def canon_text(v):
    def t(c):
        tag = c[0]
        if tag == 'num':
            return 'num:%s' % (c[1],)
        if tag == 'list':
            return '[' + ','.join(t(e) for e in c[1]) + ']'
        if tag == 'dict':
            return '{' + ','.join(json.dumps(k) + ':' + t(x) for k, x in c[1]) + '}'
        if tag == 'str':
            return json.dumps(c[1])
        if tag == 'bool':
            return 'true' if c[1] else 'false'
        return tag
    return t(canon(v))


def json_equal(a, b):
    return canon(a) == canon(b)


def roundtrip(v):
    return json.loads(json.dumps(v))


def strict_eq(a, b):
    """Deep equality that also demands identical concrete types and the sign of zero."""
    if type(a) is not type(b):
        return False
    if isinstance(a, float):
        if math.isnan(a) or math.isnan(b):
            return math.isnan(a) and math.isnan(b)
        return a == b and math.copysign(1.0, a) == math.copysign(1.0, b)
    if isinstance(a, (list, tuple)):
        return len(a) == len(b) and all(strict_eq(x, y) for x, y in zip(a, b))
    if isinstance(a, dict):
        if len(a) != len(b):
            return False
        for k, x in a.items():
            if k not in b:
                return False
            # keys must match type-strictly too
            kb = [kk for kk in b if kk == k and type(kk) is type(k)]
            if not kb or not strict_eq(x, b[kb[0]]):
                return False
        return True
    return a == b


def mutable_ids(v, acc=None):
    """ids of every list/dict reachable from v."""
    if acc is None:
        acc = set()
    if isinstance(v, (list, dict)):
        acc.add(id(v))
    if isinstance(v, (list, tuple)):
        for e in v:
            mutable_ids(e, acc)
    elif isinstance(v, dict):
        for e in v.values():
            mutable_ids(e, acc)
    return acc
