"""Thin wrapper around Hypothesis: seeded, no database, no deadline, generation phase only.

Checks run Hypothesis in *collect mode*: the body never raises for a property failure (it records
the failure and returns), so one campaign enumerates many failures; shrinking is done afterwards by
the runner's delta debugging through the deterministic replay function.  Exceptions that do escape
the body are harness errors.
"""
from hypothesis import HealthCheck, Phase, given, seed, settings


def run(strategy, body, max_examples, seed_value, suppress_slow=True):
    suppress = [HealthCheck.too_slow, HealthCheck.data_too_large, HealthCheck.large_base_example] \
        if suppress_slow else []

    @seed(seed_value)
    @settings(max_examples=max_examples, deadline=None, database=None, phases=[Phase.generate],
              suppress_health_check=suppress, report_multiple_bugs=False, derandomize=False)
    @given(strategy)
    def _t(x):
        body(x)

    _t()
