"""Thin wrapper around Hypothesis: seeded, no database, no deadline, generation phase only.

Checks run Hypothesis in *collect mode*: the body never raises for a property failure (it records
the failure and returns), so one campaign enumerates many failures; shrinking is done afterwards by
the runner's delta debugging through the deterministic replay function.  Exceptions that do escape
the body are harness errors.
"""
from hypothesis import HealthCheck, Phase, given, seed, settings


def run(strategy, body, max_examples, seed_value, suppress_slow=True, stats=None):
    """Run ``body`` on ``max_examples`` generated values.  If Hypothesis aborts the campaign because
    the code under test behaved non-deterministically (its Flaky* errors), the campaign is restarted
    with a derived seed for the remaining budget: failures recorded so far by the body are kept, the
    restart is counted in ``stats['hypothesis_flaky_restarts']``."""
    from hypothesis import errors
    suppress = [HealthCheck.too_slow, HealthCheck.data_too_large, HealthCheck.large_base_example] \
        if suppress_slow else []
    done = [0]

    def counted(x):
        done[0] += 1
        body(x)

    restarts = 0
    while done[0] < max_examples and restarts < 20:
        remaining = max_examples - done[0]

        @seed(seed_value + 7919 * restarts)
        @settings(max_examples=remaining, deadline=None, database=None, phases=[Phase.generate],
                  suppress_health_check=suppress, report_multiple_bugs=False, derandomize=False)
        @given(strategy)
        def _t(x):
            counted(x)

        before = done[0]
        try:
            _t()
            break
        except (errors.Flaky, errors.FlakyStrategyDefinition, getattr(errors, 'FlakyFailure', errors.Flaky)):
            restarts += 1
            if stats is not None:
                stats['hypothesis_flaky_restarts'] += 1
            if done[0] == before:
                break
