"""Interposition layer: proxies for the module globals ``os`` / ``threading`` / ``gzip`` / ``shutil`` /
``tempfile`` / ``open`` of the library's modules, installed at run time (no source change).  Every
file-system call and every lock operation of the library passes ``HOOK`` (when set):

* fault injection (C14, C02, C16): raise ``OSError`` at the k-th *mutating* call,
* deterministic scheduling (C08, C09, C17): a scheduling decision at every call / lock acquire.

``install()`` is idempotent; ``uninstall()`` restores the real modules.
"""
import builtins
import gzip
import os
import shutil
import sys
import tempfile
import threading

MODULES = ['file_builder.file_builder', 'file_builder.cache', 'file_builder.build_dirs',
           'file_builder.simple_operation_executor', 'file_builder.file_backups', 'file_builder.created_files']

# pure path functions are not interposed (no file-system access, no scheduling relevance)
PURE = {'join', 'dirname', 'basename', 'normcase', 'split', 'abspath', 'normpath', 'fsdecode', 'fsencode', 'fspath',
        'splitext', 'isabs', 'sep', 'relpath'}
MUTATING = {'os.mkdir', 'os.makedirs', 'os.rename', 'os.replace', 'os.rmdir', 'gzip.open:w', 'tempfile.mkdtemp'}
# frames under which failures are documented as best effort (never injected there)
BEST_EFFORT_FRAMES = {'_commit', '_roll_back', 'restore_all', 'clean', '_try_to_remove_file', '_remove_empty_dirs',
                      '_create_dirs', '__exit__', '_handle_remove_temp_dir_error'}

HOOK = None          # callable(label, args) or None
LOCK_FACTORY = None  # callable() -> lock object, or None for real locks
_installed = False
_saved = {}


def _call_hook(label, args):
    h = HOOK
    if h is not None:
        h(label, args)


def _wrap(fn, label):
    def w(*a, **k):
        lab = label
        if label == 'gzip.open' or label == 'open':
            mode = a[1] if len(a) > 1 else k.get('mode', 'r')
            lab = label + (':w' if any(c in mode for c in 'wax+') else ':r')
        _call_hook(lab, a)
        return fn(*a, **k)
    w.__name__ = getattr(fn, '__name__', 'wrapped')
    return w


class _Proxy:
    def __init__(self, real, prefix, sub=()):
        self.__dict__['_r'] = real
        self.__dict__['_p'] = prefix
        self.__dict__['_sub'] = sub
        self.__dict__['_cache'] = {}

    def __getattr__(self, k):
        c = self._cache
        if k in c:
            return c[k]
        v = getattr(self._r, k)
        if k in self._sub:
            v = _Proxy(v, self._p + k + '.')
        elif k not in PURE and callable(v) and not isinstance(v, type):
            v = _wrap(v, self._p + k)
        c[k] = v
        return v


class _ThreadingProxy:
    def __init__(self, real):
        self._r = real

    def __getattr__(self, k):
        if k == 'Lock':
            def make():
                f = LOCK_FACTORY
                return f() if f is not None else self._r.Lock()
            return make
        return getattr(self._r, k)


def install():
    global _installed
    if _installed:
        return
    import importlib
    for name in MODULES:
        m = importlib.import_module(name)
        saved = {}
        for attr, proxy in (('os', _Proxy(os, 'os.', ('path',))), ('threading', _ThreadingProxy(threading)),
                            ('gzip', _Proxy(gzip, 'gzip.')), ('shutil', _Proxy(shutil, 'shutil.')),
                            ('tempfile', _Proxy(tempfile, 'tempfile.'))):
            if hasattr(m, attr):
                saved[attr] = getattr(m, attr)
                setattr(m, attr, proxy)
        saved['open'] = m.__dict__.get('open', None)
        m.open = _wrap(builtins.open, 'open')
        _saved[name] = saved
    _installed = True


def uninstall():
    global _installed, HOOK, LOCK_FACTORY
    if not _installed:
        return
    for name, saved in _saved.items():
        m = sys.modules[name]
        for attr, v in saved.items():
            if attr == 'open':
                if v is None:
                    m.__dict__.pop('open', None)
                else:
                    m.open = v
            else:
                setattr(m, attr, v)
    _saved.clear()
    HOOK = None
    LOCK_FACTORY = None
    _installed = False


def in_best_effort_frame(skip=2, depth=40):
    f = sys._getframe(skip)
    n = 0
    while f is not None and n < depth:
        if f.f_code.co_name in BEST_EFFORT_FRAMES and 'file_builder' in f.f_code.co_filename:
            return True
        f = f.f_back
        n += 1
    return False


class InjectedFault(OSError):
    """The injected error (errno EIO)."""


class FaultInjector:
    """HOOK that counts the library's mutating calls (outside best-effort frames) and raises at the k-th."""

    def __init__(self, fail_at=None):
        self.fail_at = fail_at
        self.count = 0
        self.labels = []
        self.fired = None        # (index, label, path)
        self.error = None
        self.on_fire = None

    def __call__(self, label, args):
        if label not in MUTATING:
            return
        if in_best_effort_frame(3):
            return
        i = self.count
        self.count += 1
        self.labels.append(label)
        if self.fail_at is not None and i == self.fail_at and self.fired is None:
            self.fired = (i, label, str(args[0]) if args else '')
            self.error = InjectedFault(5, 'injected I/O error in %s' % label, str(args[0]) if args else None)
            if self.on_fire:
                self.on_fire(self)
            raise self.error
