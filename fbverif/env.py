"""Process environment shared by every check.

* puts the repository under test first on sys.path (``VERIF_REPO`` overrides /repo: used only by the
  mutation self-tests, never by registered commands),
* silences the library's logging,
* chooses the scratch base directory (``/dev/shm`` when usable, else the default temp dir).
"""
import logging
import os
import sys
import tempfile

VERIF_DIR = os.path.dirname(os.path.dirname(os.path.abspath(__file__)))
REPO = os.path.abspath(os.environ.get('VERIF_REPO', '/repo'))
GUARD = 'FILE_BUILDER_VERIF'

if REPO not in sys.path:
    sys.path.insert(0, REPO)
sys.dont_write_bytecode = True
os.environ.setdefault(GUARD, '1')
logging.disable(logging.CRITICAL)


def _pick_base():
    for cand in ('/dev/shm',):
        try:
            if os.path.isdir(cand) and os.access(cand, os.W_OK | os.X_OK):
                d = tempfile.mkdtemp(prefix='fbv_probe_', dir=cand)
                os.rmdir(d)
                return cand
        except OSError:
            pass
    return None


SCRATCH_BASE = _pick_base()


def seed_from_env():
    try:
        return int(os.environ.get('VERIF_SEED', '1'))
    except ValueError:
        return 1
