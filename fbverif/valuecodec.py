"""Lossless JSON encoding of the Python values the checks feed to the library (tuples, non-string
dict keys, key order, -0.0/inf, big ints, subclasses of the JSON base types, deliberately non-JSON
atoms), so that generated cases can be written to replay files and evidence samples."""
import collections
import math


class MyStr(str):
    pass


class MyInt(int):
    pass


class MyFloat(float):
    pass


class MyList(list):
    pass


class MyDict(dict):
    pass


Pair = collections.namedtuple('Pair', ['x', 'y'])

SUBCLASSES = {'MyStr': MyStr, 'MyInt': MyInt, 'MyFloat': MyFloat, 'MyList': MyList, 'MyDict': MyDict,
              'OrderedDict': collections.OrderedDict}


class Opaque:
    def __repr__(self):
        return 'Opaque()'


def bad_atom(name):
    return {'set': set(), 'bytes': b'x', 'object': Opaque(), 'complex': 1j,
            'frozenset': frozenset([1]), 'bytearray': bytearray(b'y')}[name]


BAD_NAMES = ['set', 'bytes', 'object', 'complex', 'frozenset', 'bytearray']


def enc(v):
    t = type(v)
    if v is None or t is bool or t is str:
        return v
    if t is int:
        return v if abs(v) < 2 ** 53 else {'$int': str(v)}
    if t is float:
        return {'$float': repr(v)}
    if t is list:
        return [enc(e) for e in v]
    if t is tuple:
        return {'$tuple': [enc(e) for e in v]}
    if t is dict:
        return {'$dict': [[enc(k), enc(x)] for k, x in v.items()]}
    if t is Pair:
        return {'$pair': [enc(v.x), enc(v.y)]}
    if t is collections.OrderedDict:
        return {'$sub': 'OrderedDict', 'v': {'$dict': [[enc(k), enc(x)] for k, x in v.items()]}}
    if t is MyStr:
        return {'$sub': 'MyStr', 'v': str(v)}
    if t is MyInt:
        return {'$sub': 'MyInt', 'v': enc(int(v))}
    if t is MyFloat:
        return {'$sub': 'MyFloat', 'v': enc(float(v))}
    if t is MyList:
        return {'$sub': 'MyList', 'v': [enc(e) for e in v]}
    if t is MyDict:
        return {'$sub': 'MyDict', 'v': {'$dict': [[enc(k), enc(x)] for k, x in v.items()]}}
    for name in BAD_NAMES:
        if t is type(bad_atom(name)):
            return {'$bad': name}
    raise TypeError('cannot encode %r' % (t,))


def dec(j):
    if j is None or isinstance(j, (bool, str, int)):
        return j
    if isinstance(j, list):
        return [dec(e) for e in j]
    if '$int' in j:
        return int(j['$int'])
    if '$float' in j:
        return float(j['$float'])
    if '$tuple' in j:
        return tuple(dec(e) for e in j['$tuple'])
    if '$dict' in j:
        return {dec(k): dec(x) for k, x in j['$dict']}
    if '$pair' in j:
        return Pair(dec(j['$pair'][0]), dec(j['$pair'][1]))
    if '$bad' in j:
        return bad_atom(j['$bad'])
    if '$sub' in j:
        return SUBCLASSES[j['$sub']](dec(j['v']))
    raise ValueError('cannot decode %r' % (j,))


def has_nan(v):
    if isinstance(v, float):
        return math.isnan(v)
    if isinstance(v, (list, tuple)):
        return any(has_nan(e) for e in v)
    if isinstance(v, dict):
        return any(has_nan(k) or has_nan(x) for k, x in v.items())
    return False
