"""Deterministic cooperative scheduler for the ``par`` statement (C08, C09, C17).

Real threads, exactly one runnable at a time.  A scheduling decision is taken at every
file-system call the library makes through its (interposed) module globals and at every
acquisition of a library lock; a thread that cannot get a lock is parked and another one runs;
if every live thread is parked the run is a deadlock (reported, threads are unwound).

Schedules are data: ``{"mode": "preempt", "preempt": [[n, off], ...]}`` switches away from the
running thread at decision number n (to the off-th other runnable thread); ``{"mode": "random",
"seed": s, "p": 0.1}`` switches with probability p at every decision (seeded, reproducible).
The default (no entry) is run-to-completion in task order.
"""
import os
import random
import sys
import threading

from . import interpose
from .model import Crash


class Deadlock(Crash):
    """Raised inside every parked thread when all live threads wait for locks."""


class SchedulerStall(RuntimeError):
    """Harness-level problem: a managed thread did not reach a scheduling point in time."""


WAIT_S = 60.0
ACTIVE = None          # the scheduler of the par statement being executed (one at a time)


class Policy:
    def __init__(self, spec):
        spec = spec or {}
        self.mode = spec.get('mode', 'preempt')
        self.preempt = {int(n): int(off) for n, off in spec.get('preempt', [])}
        self.rng = random.Random(spec.get('seed', 0))
        self.p = spec.get('p', 0.1)
        self.first = spec.get('first', 0)
        self.lines = bool(spec.get('lines'))     # also decide at every executed line of library code

    def choose(self, n, label, runnable, me):
        others = [r for r in runnable if r != me]
        if not others:
            return me
        if me not in runnable:
            return others[0]
        if self.mode == 'preempt':
            if n in self.preempt:
                return others[self.preempt[n] % len(others)]
            return me
        if self.rng.random() < self.p:
            return others[self.rng.randrange(len(others))]
        return me


class Sched:
    def __init__(self, spec):
        self.policy = Policy(spec)
        self.cv = threading.Condition()
        self.cur = None
        self.names = {}            # thread ident -> task name
        self.state = {}            # task name -> 'run' | 'done'
        self.blocked = {}          # task name -> lock
        self.n = 0
        self.switches = []
        self.labels = []
        self.deadlocked = False
        self.preempt_landed = []   # (n, label) of preemptions that actually switched
        self._results = []
        self._threads = []
        self.atomic = {}           # task name -> nesting depth of 'no preemption' regions

    # ---- helpers (call with cv held)
    def _me(self):
        return self.names.get(threading.get_ident())

    def _runnable(self):
        return sorted(t for t, s in self.state.items() if s == 'run' and t not in self.blocked)

    def _wait_turn(self, me):
        while self.cur != me:
            if self.deadlocked:
                raise Deadlock('deadlock')
            if not self.cv.wait(WAIT_S):
                raise SchedulerStall('thread %s waited %ss for its turn' % (me, WAIT_S))

    def managed(self):
        return threading.get_ident() in self.names

    # ---- scheduling points
    def yield_point(self, label):
        me = self._me()
        if me is None:
            return
        if self.atomic.get(me):
            return            # inside a region the harness executes without preemption
        with self.cv:
            if self.deadlocked:
                raise Deadlock('deadlock')
            r = self._runnable()
            if len(r) < 2:
                return
            self.n += 1
            self.labels.append(label)
            nxt = self.policy.choose(self.n, label, r, me)
            if nxt != me:
                self.switches.append((self.n, label, me, nxt))
                self.preempt_landed.append((self.n, label))
                self.cur = nxt
                self.cv.notify_all()
                self._wait_turn(me)

    def block_on(self, lock):
        me = self._me()
        with self.cv:
            self.blocked[me] = lock
            r = self._runnable()
            if not r:
                self.deadlocked = True
                self.cv.notify_all()
                del self.blocked[me]
                raise Deadlock('deadlock: every live thread waits for a lock')
            self.cur = r[0]
            self.cv.notify_all()
            self._wait_turn(me)

    def unblock(self, lock):
        with self.cv:
            for t, l in list(self.blocked.items()):
                if l is lock:
                    del self.blocked[t]

    # ---- dynamically spawned managed thread (C17: a straggler started by a running task)
    def spawn(self, fn):
        """Start fn in a new managed thread from inside a managed thread; run_all waits for it too."""
        idx = len(self._results)
        self._results.append(None)
        me = 't%d' % idx

        def runner():
            with self.cv:
                self._wait_turn(me)
            if self.policy.lines:
                sys.settrace(_line_tracer)
            try:
                self._results[idx] = ('ok', fn())
            except BaseException as e:        # noqa: B902
                self._results[idx] = ('exc', e)
            finally:
                sys.settrace(None)
                self._finish(me)
        th = threading.Thread(target=runner, name='fbv-task-%d' % idx, daemon=True)
        with self.cv:
            self.state[me] = 'run'
        th.start()
        self.names[th.ident] = me
        self._threads.append(th)
        return idx

    def _finish(self, me):
        with self.cv:
            self.state[me] = 'done'
            self.blocked.pop(me, None)
            r = self._runnable()
            if r:
                self.cur = r[0]
            elif self.blocked:
                self.deadlocked = True
                self.cur = None
            else:
                self.cur = None
            self.cv.notify_all()

    # ---- running tasks
    def run_all(self, tasks):
        """tasks: list of callables; returns list of ('ok', value) | ('exc', exception).  The calling
        (unmanaged) thread waits until every task is done."""
        global ACTIVE
        results = self._results = [None] * len(tasks)
        threads = self._threads = []

        def runner(i, fn):
            me = 't%d' % i
            with self.cv:
                self._wait_turn(me)
            if self.policy.lines:
                sys.settrace(_line_tracer)
            try:
                results[i] = ('ok', fn())
            except BaseException as e:        # noqa: B902 - reported to the caller
                results[i] = ('exc', e)
            finally:
                sys.settrace(None)
                with self.cv:
                    self.state[me] = 'done'
                    self.blocked.pop(me, None)
                    r = self._runnable()
                    if r:
                        self.cur = r[0]
                    elif self.blocked:
                        self.deadlocked = True
                        self.cur = None
                    else:
                        self.cur = None
                    self.cv.notify_all()

        for i, fn in enumerate(tasks):
            th = threading.Thread(target=runner, args=(i, fn), name='fbv-task-%d' % i, daemon=True)
            threads.append(th)
        prev_active = ACTIVE
        ACTIVE = self
        try:
            for i, th in enumerate(threads):
                self.state['t%d' % i] = 'run'
            for i, th in enumerate(threads):
                th.start()
                self.names[th.ident] = 't%d' % i
            with self.cv:
                order = sorted(self.state)
                self.cur = order[self.policy.first % len(order)]
                self.cv.notify_all()
            k = 0
            while k < len(threads):          # the list grows when a task spawns a straggler
                th = threads[k]
                k += 1
                th.join(WAIT_S * 2)
                if th.is_alive():
                    with self.cv:
                        self.deadlocked = True
                        self.cv.notify_all()
                    raise SchedulerStall('task thread %s did not finish' % th.name)
        finally:
            ACTIVE = prev_active
        return results


class SLock:
    """Lock handed to the library (through the interposed ``threading`` global)."""

    def __init__(self):
        self._l = threading.Lock()

    def acquire(self, blocking=True, timeout=-1):
        s = ACTIVE
        if s is None or not s.managed():
            return self._l.acquire(blocking, timeout)
        s.yield_point('lock.acquire')
        while not self._l.acquire(False):
            s.block_on(self)
        return True

    def release(self):
        self._l.release()
        s = ACTIVE
        if s is not None:
            s.unblock(self)

    def locked(self):
        return self._l.locked()

    def __enter__(self):
        self.acquire()
        return self

    def __exit__(self, *a):
        self.release()
        return False


_LIB_DIR = None


def _lib_dir():
    global _LIB_DIR
    if _LIB_DIR is None:
        import file_builder
        _LIB_DIR = os.path.dirname(os.path.abspath(file_builder.__file__)) + os.sep
    return _LIB_DIR


def _line_tracer(frame, event, arg):
    """sys.settrace hook of task threads in line-granularity mode: every executed line of library
    code is a scheduling point (pure-Python stretches are no longer atomic)."""
    if event != 'call':
        return None
    if not frame.f_code.co_filename.startswith(_lib_dir()):
        return None
    return _local_tracer


def _local_tracer(frame, event, arg):
    if event == 'line':
        s = ACTIVE
        if s is not None:
            s.yield_point('line')
    return _local_tracer


def hook(label, args):
    s = ACTIVE
    if s is not None:
        s.yield_point(label)


def enable():
    """Install the interposition layer with scheduler-aware locks (before the build creates its locks)."""
    interpose.install()
    interpose.LOCK_FACTORY = SLock
    interpose.HOOK = hook


def disable():
    interpose.HOOK = None
    interpose.LOCK_FACTORY = None


class no_preemption:
    """Context manager: the calling task is not preempted inside (it can still block on a lock)."""

    def __enter__(self):
        s = ACTIVE
        self._s = s
        self._me = s._me() if s is not None else None
        if self._me is not None:
            s.atomic[self._me] = s.atomic.get(self._me, 0) + 1
        return self

    def __exit__(self, *a):
        if self._me is not None:
            self._s.atomic[self._me] -= 1
        return False
