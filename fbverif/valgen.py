"""Hypothesis strategies for JSON values (shared by C07, C11, C16, C18).

``atoms``/``raw_values``: anything json.dumps accepts (tuples, non-string keys, subclasses at a low
rate), never NaN.  ``sanitized_values``: possible results of json.loads(json.dumps(.)).
``edited(v)``: a value obtained from v by 0..3 small edits that are either JSON-equality preserving
(list<->tuple, 1<->1.0, key order, key 1<->"1") or near misses (True<->1, "1"<->1, element order,
dropped element) -- so that equal and nearly-equal pairs are both frequent.
"""
import copy

from hypothesis import strategies as st

from . import valuecodec as vc

COLLIDING_ATOMS = [None, False, True, 0, 1, 2, 1.0, -0.0, '', '0', 'a', 2 ** 63, float('inf')]
EXTRA_ATOMS = [-1, 0.0, 2.0, 0.5, float('-inf'), float(2 ** 63), 2 ** 53 + 1, float(2 ** 53), 2 ** 70,
               -2 ** 63 - 1, 1e308, 5e-324, '1', 'true', 'null', 'é', '\U0001F600', '\ud800', ' ', 'A',
               'a' * 40, '\x00', '"', '\\']

STR_KEYS = ['', '0', '1', 'a', 'b', 'true', 'null', '1.0', 'Infinity', 'é', '\U0001F600']
RAW_KEYS = STR_KEYS + [0, 1, 2, True, False, None, 1.0, 0.5, -0.0, 2 ** 63, float('inf'), -1]

atoms = st.one_of(
    st.sampled_from(COLLIDING_ATOMS),
    st.sampled_from(COLLIDING_ATOMS + EXTRA_ATOMS),
    st.integers(-3, 3),
    st.integers(-2 ** 80, 2 ** 80),
    st.floats(allow_nan=False, allow_infinity=True),
    st.text(max_size=6),
)

str_keys = st.one_of(st.sampled_from(STR_KEYS), st.text(max_size=3))
raw_keys = st.one_of(st.sampled_from(RAW_KEYS), st.text(max_size=3), st.integers(-3, 3))


def _ordered_dict(keys, children):
    # a list of pairs keeps insertion order under our control
    return st.lists(st.tuples(keys, children), max_size=4).map(dict)


def sanitized_values(max_leaves=12):
    return st.recursive(
        atoms,
        lambda ch: st.one_of(st.lists(ch, max_size=4), _ordered_dict(str_keys, ch)),
        max_leaves=max_leaves)


def sanitized_with_tuples(max_leaves=12):
    return st.recursive(
        atoms,
        lambda ch: st.one_of(st.lists(ch, max_size=4), st.lists(ch, max_size=4).map(tuple),
                             _ordered_dict(str_keys, ch)),
        max_leaves=max_leaves)


def _subclassed(ch):
    import collections
    return st.one_of(
        st.text(max_size=3).map(vc.MyStr),
        st.integers(-5, 5).map(vc.MyInt),
        st.floats(allow_nan=False, allow_infinity=False, width=32).map(vc.MyFloat),
        st.lists(ch, max_size=3).map(vc.MyList),
        _ordered_dict(str_keys, ch).map(vc.MyDict),
        _ordered_dict(raw_keys, ch).map(collections.OrderedDict),
        st.tuples(ch, ch).map(lambda t: vc.Pair(*t)),
    )


def raw_values(max_leaves=12, subclasses=True):
    def ext(ch):
        opts = [st.lists(ch, max_size=4), st.lists(ch, max_size=4).map(tuple),
                _ordered_dict(raw_keys, ch), _ordered_dict(str_keys, ch)]
        if subclasses:
            opts.append(_subclassed(ch))
        return st.one_of(*opts)
    return st.recursive(atoms, ext, max_leaves=max_leaves)


# ---------------------------------------------------------------------------------------------
# edits
# ---------------------------------------------------------------------------------------------

def _positions(v, path=()):
    yield path
    if isinstance(v, (list, tuple)):
        for i, e in enumerate(v):
            yield from _positions(e, path + (i,))
    elif isinstance(v, dict):
        for k, e in v.items():
            yield from _positions(e, path + (('k', k),))


def _get(v, path):
    for p in path:
        v = v[p[1]] if isinstance(p, tuple) else v[p]
    return v


def _set(v, path, new):
    if not path:
        return new
    p = path[0]
    if isinstance(p, tuple):
        out = dict(v)
        out[p[1]] = _set(v[p[1]], path[1:], new)
        return out
    seq = list(v)
    seq[p] = _set(v[p], path[1:], new)
    return tuple(seq) if isinstance(v, tuple) else seq


def _edit_options(x, allow_tuples, allow_raw_keys):
    """List of (name, new value) edits applicable to the sub-value x."""
    out = []
    t = type(x)
    # near misses between *kinds* of values (a tagged encoding that confuses its tags equates exactly these)
    if t is list and len(x) == 0:
        out += [('[]->{}', {}), ('[]->false', False), ('[]->null', None), ('[]->""', '')]
    if t is list and len(x) == 1 and type(x[0]) is int and x[0] in (0, 1, 2):
        out += [('[n]->true', True), ('[n]->false', False), ('[n]->n', x[0])]
    if t is dict and len(x) == 0:
        out += [('{}->[]', []), ('{}->true', True), ('{}->false', False), ('{}->null', None)]
    if t is bool:
        out += [('bool->[1]', [1]), ('bool->[2]', [2]), ('bool->[0]', [0]), ('bool->{}', {}), ('bool->[]', []), ('bool->[bool]', [x])]
    if x is None:
        out += [('none->[]', []), ('none->{}', {}), ('none->[none]', [None])]
    if t is list:
        if allow_tuples:
            out.append(('list->tuple', tuple(x)))
        if len(x) >= 2:
            out.append(('swap', [x[1], x[0]] + list(x[2:])))
            out.append(('drop', list(x[:-1])))
        out.append(('append', list(x) + [0]))
        out.append(('wrap', [x]))
    elif t is tuple:
        out.append(('tuple->list', list(x)))
        if len(x) >= 2:
            out.append(('swap', (x[1], x[0]) + tuple(x[2:])))
    elif t is dict:
        if len(x) >= 2:
            out.append(('reorder', dict(reversed(list(x.items())))))
            out.append(('dropkey', dict(list(x.items())[:-1])))
        out.append(('addkey', dict(list(x.items()) + [('zz', None)])))
        if x:
            k0 = next(iter(x))
            # same number of keys, different key set (also with a null value under the unmatched key)
            out.append(('renamekey', {('zz' if kk == k0 and type(kk) is type(k0) else kk): vv for kk, vv in x.items()}))
            out.append(('renamekey_null', {('zz' if kk == k0 and type(kk) is type(k0) else kk): (None if kk == k0 else vv) for kk, vv in x.items()}))
            out.append(('nullvalue', {kk: (None if kk == k0 and type(kk) is type(k0) else vv) for kk, vv in x.items()}))
        if allow_raw_keys:
            for k in list(x):
                if k == '1' and type(k) is str:
                    out.append(('key"1"->1', {(1 if kk == '1' and type(kk) is str else kk): vv for kk, vv in x.items()}))
                elif type(k) is int and k == 1:
                    out.append(('key1->"1"', {('1' if type(kk) is int and kk == 1 else kk): vv for kk, vv in x.items()}))
                elif k == 'true' and type(k) is str:
                    out.append(('key"true"->True', {(True if kk == 'true' and type(kk) is str else kk): vv for kk, vv in x.items()}))
    elif t is bool:
        out.append(('bool->int', int(x)))
        out.append(('bool->float', float(x)))
        out.append(('not', not x))
    elif t is int:
        try:
            f = float(x)
            out.append(('int->float', f))
        except OverflowError:
            pass
        if x in (0, 1):
            out.append(('int->bool', bool(x)))
        out.append(('int->str', str(x)))
        out.append(('inc', x + 1))
    elif t is float:
        if x == x and x not in (float('inf'), float('-inf')) and x == int(x):
            out.append(('float->int', int(x)))
        if x == 0.0:
            out.append(('negzero', -x))
        if x in (0.0, 1.0):
            out.append(('float->bool', bool(x)))
    elif t is str:
        out.append(('str+', x + 'x'))
        if x in ('0', '1', '2'):
            out.append(('str->int', int(x)))
        out.append(('str->list', [x]))
    elif x is None:
        out.append(('none->false', False))
        out.append(('none->0', 0))
        out.append(('none->"null"', 'null'))
    return out


@st.composite
def edited(draw, v, allow_tuples=True, allow_raw_keys=True, max_edits=3):
    """Return (w, edit_names): w is v after 0..max_edits edits."""
    w = copy.deepcopy(v)
    names = []
    for _ in range(draw(st.integers(0, max_edits))):
        pos = list(_positions(w))
        path = draw(st.sampled_from(pos))
        opts = _edit_options(_get(w, path), allow_tuples, allow_raw_keys)
        if not opts:
            continue
        name, new = draw(st.sampled_from(opts))
        w = _set(w, path, new)
        names.append(name)
    return w, names
