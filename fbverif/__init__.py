"""fbverif: property-based verification machinery for btrekkie/file-builder (see /verif/DESIGN.md)."""
