"""Reference model: the documented *from-scratch* semantics of FileBuilder on an in-memory tree.

No cache: every build_file/subbuild function always runs.  ``ModelBuild`` holds the virtual view
(pre-tree minus cache file, minus the previous build's outputs that are regular files, minus the
directories that build created and that are now empty), ``ModelBuilder`` mimics the FileBuilder
API on it and records a trace forest (one ``Node`` per build_file/subbuild invocation with its
ordered events) that the C05/C06/C13 oracles compare between consecutive builds.

Tree representation: ``{abs path: ('d',) | ('f', bytes, mtime_ns)}``; the universe root is always
present.  See DESIGN.md section 3.
"""
import copy
import hashlib
import json
import os

from .canon import canon, canon_text


NAME_MAX = 255


class UserError(Exception):
    """Raised by generated user code (``raise`` statement)."""


class UserTypeError(UserError, TypeError):
    """User code may raise any exception class: the library must hand back the same object."""


class UserValueError(UserError, ValueError):
    pass


class UserOSError(UserError, OSError):
    pass


class UserFileNotFoundError(UserError, FileNotFoundError):
    pass


class UserRuntimeError(UserError, RuntimeError):
    pass


USER_EXC = {None: UserError, 'user': UserError, 'type': UserTypeError, 'value': UserValueError, 'os': UserOSError,
            'fnf': UserFileNotFoundError, 'runtime': UserRuntimeError}


class Crash(Exception):
    """Raised by generated user code at an enumerated crash point; never caught by generated code."""


class CrashBase(BaseException):
    """A crash that is not an ``Exception`` (like KeyboardInterrupt or SystemExit reaching the build)."""


def jsonrt(v):
    return json.loads(json.dumps(v))


class Node:
    __slots__ = ('kind', 'key', 'fname', 'args', 'kwargs', 'events', 'raised', 'setup_failed', 'ret',
                 'path', 'cmp', 'exc', 'created_dirs', 'overwrote_foreign')

    def __init__(self, kind, key, fname, args, kwargs, path=None, cmp=None):
        self.kind = kind
        self.key = key
        self.fname = fname
        self.args = args
        self.kwargs = kwargs
        self.events = []
        self.raised = False
        self.setup_failed = False
        self.ret = None
        self.path = path
        self.cmp = cmp
        self.exc = None
        self.created_dirs = []
        self.overwrote_foreign = False

    def to_json(self):
        return {'kind': self.kind, 'key': list(self.key), 'fname': self.fname, 'raised': self.raised,
                'setup_failed': self.setup_failed, 'exc': self.exc,
                'events': [e.to_json() if isinstance(e, Node) else list(e) for e in self.events]}

    def walk(self):
        yield self
        for e in self.events:
            if isinstance(e, Node):
                yield from e.walk()


def sub_key(fname, args, kwargs):
    return ('S', fname, repr(canon([args, kwargs])))


class ModelFS:
    def __init__(self, tree):
        self.t = dict(tree)

    def is_file(self, p):
        n = self.t.get(p)
        return n is not None and n[0] == 'f'

    def is_dir(self, p):
        n = self.t.get(p)
        return n is not None and n[0] == 'd'

    def exists(self, p):
        return p in self.t

    def children(self, p):
        pre = p.rstrip('/') + '/'
        n = len(pre)
        return sorted(k[n:] for k in self.t if k.startswith(pre) and '/' not in k[n:])

    def remove_empty_dirs(self, dirs):
        removed = []
        for d in sorted(dirs, key=lambda x: (-x.count('/'), x)):
            if self.is_dir(d) and not self.children(d):
                del self.t[d]
                removed.append(d)
        return removed


class Prev:
    """What the last *committed* build recorded (according to the model)."""

    def __init__(self, outputs=(), created_dirs=(), versions=None, forest=None):
        self.outputs = set(outputs)
        self.created_dirs = set(created_dirs)
        self.versions = dict(versions or {})
        self.forest = forest or []
        self.meta = {}      # output path -> (bytes, mtime_ns) of the real file right after the commit

    def dirs_closure(self, root):
        out = set()
        for d in self.created_dirs:
            while d != root and len(d) > len(root) and d not in out:
                out.add(d)
                d = os.path.dirname(d)
        return out


def _inv_of(node):
    if node.kind == 'file':
        return 'F:' + str(node.path)
    return 'S:%s:%s' % (node.fname, canon_text([node.args, node.kwargs]))


class ModelBuild:
    def record_implies_duplicate(self, key):
        for r in self.prev.forest:
            for n in r.walk():
                if n.key == key and not n.raised:
                    for m in n.walk():
                        if m is n or m.setup_failed:
                            continue
                        if (m.key in self.claimed_subs) if m.kind == 'sub' else (m.path in self.claimed_files):
                            self.implied_hits.append((_inv_of(n), _inv_of(m)))
                            return True
        return False

    def __init__(self, tree, prev, cache_path, versions, root):
        self.root = root
        self.pre = dict(tree)
        has_cache = cache_path in tree and tree[cache_path][0] == 'f'
        self.has_cache = has_cache
        self.prev = prev if has_cache else Prev()
        self.cache_path = cache_path
        self.versions = versions
        v = ModelFS(tree)
        if has_cache:
            del v.t[cache_path]
        self.stale_outputs = set()
        for p in self.prev.outputs:
            if v.is_file(p):
                del v.t[p]
                self.stale_outputs.add(p)
        self.stale_dirs = set(v.remove_empty_dirs(self.prev.created_dirs))
        self.v = v
        self.in_progress = set()
        self.in_progress_builders = {}     # target path -> ModelBuilder of the function that is building it
        self.claimed_files = set()
        self.claimed_subs = set()
        # races only (C08): a call whose reusable record contains a key that a concurrent task has claimed in the
        # meantime may itself be rejected ("implied because a cached subtree containing it is being reused")
        self.implied_dup = False
        self.implied_hits = []       # (request that was rejected, claimed key inside its record) as invocation ids
        self.outputs = set()
        self.failed_outputs = set()
        self.created = set()
        self.forest = []
        self.overwritten_foreign = set()
        self.fault_inv = None          # C14: the call (by key) that fails in setup with an injected OSError

    # ---- queries on the virtual view ---------------------------------------------------------
    def q(self, kind, p):
        v = self.v
        if kind == 'exists':
            return v.exists(p)
        if kind == 'is_file':
            return v.is_file(p)
        if kind == 'is_dir':
            return v.is_dir(p)
        if kind == 'list_dir':
            if v.is_dir(p):
                return v.children(p)
            if v.is_file(p):
                raise NotADirectoryError(p)
            raise FileNotFoundError(p)
        if kind in ('walk', 'walk_bu'):
            res = []

            def rec(d):
                ch = v.children(d)
                subd = [c for c in ch if v.is_dir(d + '/' + c)]
                subf = [c for c in ch if v.is_file(d + '/' + c)]
                if kind == 'walk':
                    res.append((d, subd, subf))
                for c in subd:
                    rec(d + '/' + c)
                if kind == 'walk_bu':
                    res.append((d, subd, subf))
            if v.is_dir(p):
                rec(p)
            return res
        if kind == 'get_size':
            if v.is_file(p):
                return len(v.t[p][1])
            if v.is_dir(p):
                return 'DIR'
            raise FileNotFoundError(p)
        if kind in ('read_text', 'read_binary', 'declare_read'):
            if v.is_file(p):
                return v.t[p][1]
            if v.is_dir(p):
                raise IsADirectoryError(p)
            raise FileNotFoundError(p)
        raise ValueError(kind)

    def read_answer(self, p, cmp):
        n = self.v.t[p]
        if cmp == 'HASH':
            return ('HASH', hashlib.sha256(n[1]).hexdigest())
        return ('META', len(n[1]), n[2])

    # ---- final trees ----------------------------------------------------------------------------
    def committed_tree(self):
        """Expected tree after a committed build: view + cache file (+ the directories to hold it).
        Returns (tree, cache_dirs_created)."""
        exp = dict(self.v.t)
        d = os.path.dirname(self.cache_path)
        cd = []
        while d not in exp:
            cd.append(d)
            exp[d] = ('d',)
            d = os.path.dirname(d)
        exp[self.cache_path] = ('f', None, None)
        return exp, cd


class ModelBuilder:
    """Mimics the public FileBuilder API with from-scratch semantics."""

    def __init__(self, mb, node):
        self.mb = mb
        self.node = node
        self.finished = False
        self.pending = None     # (bytes, mtime_ns) written by the generated file function

    def _rec(self, ev):
        if self.node is not None:
            self.node.events.append(ev)
        elif isinstance(ev, Node):
            self.mb.forest.append(ev)

    def _check(self):
        if self.finished:
            raise RuntimeError('finished builder')

    def _query(self, kind, p, cmp='METADATA'):
        self._check()
        p = os.path.abspath(os.fsdecode(p))
        try:
            r = self.mb.q(kind, p)
        except OSError as e:
            self._rec(('q', 'read' if kind in ('read_text', 'read_binary', 'declare_read') else kind, p,
                       cmp if kind in ('read_text', 'read_binary', 'declare_read') else None,
                       '!' + type(e).__name__))
            raise
        if kind in ('read_text', 'read_binary', 'declare_read'):
            self._rec(('q', 'read', p, cmp, self.mb.read_answer(p, cmp)))
        else:
            self._rec(('q', kind, p, None, r))
        return r

    def exists(self, p):
        return self._query('exists', p)

    def is_file(self, p):
        return self._query('is_file', p)

    def is_dir(self, p):
        return self._query('is_dir', p)

    def list_dir(self, p):
        return self._query('list_dir', p)

    def walk(self, p, top_down=True):
        return self._query('walk' if top_down else 'walk_bu', p)

    def get_size(self, p):
        return self._query('get_size', p)

    def read_text(self, p, cmp='METADATA'):
        return self._query('read_text', p, cmp)

    def read_binary(self, p, cmp='METADATA'):
        return self._query('read_binary', p, cmp)

    def declare_read(self, p, cmp='METADATA'):
        return self._query('declare_read', p, cmp)

    def subbuild(self, fname, func, *args, **kwargs):
        self._check()
        mb = self.mb
        a = jsonrt(list(args))
        kw = jsonrt(kwargs)
        key = sub_key(fname, a, kw)
        node = Node('sub', key, fname, a, kw)
        self._rec(node)
        if key in mb.claimed_subs or (mb.implied_dup and mb.record_implies_duplicate(key)):
            node.raised = True
            node.setup_failed = True
            node.exc = 'RuntimeError'
            raise RuntimeError('model: duplicate subbuild')
        if mb.fault_inv is not None and mb.fault_inv == 'S:%s:%s' % (fname, canon_text([a, kw])):
            mb.fault_inv = None
            node.raised = True
            node.setup_failed = True
            node.exc = 'OSError'
            raise OSError(5, 'model: injected fault')
        mb.claimed_subs.add(key)
        sub = ModelBuilder(mb, node)
        try:
            r = func(sub, *copy.deepcopy(a), **copy.deepcopy(kw))
            try:
                r = jsonrt(r)
            except (TypeError, ValueError):
                raise TypeError('model: return value is not JSON')
            node.ret = r
            return copy.deepcopy(r)
        except Exception as e:
            node.raised = True
            node.exc = type(e).__name__
            raise
        finally:
            sub.finished = True

    def build_file(self, filename, fname, func, *args, **kwargs):
        return self.build_file_with_comparison(filename, 'METADATA', fname, func, *args, **kwargs)

    def build_file_with_comparison(self, filename, cmp, fname, func, *args, **kwargs):
        self._check()
        mb = self.mb
        v = mb.v
        p = os.path.abspath(os.fsdecode(filename))
        a = jsonrt(list(args))
        kw = jsonrt(kwargs)
        node = Node('file', ('F', p), fname, a, kw, path=p, cmp=cmp)
        self._rec(node)

        def setup_fail(exc):
            node.raised = True
            node.setup_failed = True
            node.exc = type(exc).__name__
            raise exc
        if p in mb.claimed_files or (mb.implied_dup and mb.record_implies_duplicate(('F', p))):
            setup_fail(RuntimeError('model: duplicate build_file'))
        if p == mb.cache_path:
            setup_fail(RuntimeError('model: build_file on the cache file'))
        if v.is_dir(p):
            setup_fail(IsADirectoryError(p))
        to_make = []
        d = os.path.dirname(p)
        while not v.exists(d):
            if d == mb.cache_path:
                setup_fail(NotADirectoryError(d))
            ipb = mb.in_progress_builders.get(d)
            if ipb is not None and ipb.pending is not None:
                # a target that is being built right now and has already been written is a regular file on disk, although
                # queries do not see it: no directory can be created there (only generated *after* the write statement)
                setup_fail(NotADirectoryError(d))
            to_make.append(d)
            nd = os.path.dirname(d)
            if nd == d:
                setup_fail(FileNotFoundError(d))
            d = nd
        if v.is_file(d):
            setup_fail(NotADirectoryError(d))
        if mb.fault_inv is not None and mb.fault_inv == 'F:' + p:
            mb.fault_inv = None
            setup_fail(OSError(5, 'model: injected fault'))
        to_make.reverse()
        for d in to_make:
            if len(os.path.basename(d).encode()) > NAME_MAX:
                # mkdir fails (ENAMETOOLONG): per C10 nothing this call created may remain
                setup_fail(OSError(36, 'File name too long', d))
        for d in to_make:
            v.t[d] = ('d',)
            mb.created.add(d)
        node.created_dirs = list(to_make)
        if v.is_file(p):
            del v.t[p]
            node.overwrote_foreign = True
            mb.overwritten_foreign.add(p)
        mb.claimed_files.add(p)
        mb.in_progress.add(p)
        sub = ModelBuilder(mb, node)
        mb.in_progress_builders[p] = sub
        try:
            r = func(sub, p, *copy.deepcopy(a), **copy.deepcopy(kw))
            try:
                r = jsonrt(r)
            except (TypeError, ValueError):
                raise TypeError('model: return value is not JSON')
            if sub.pending is None:
                raise RuntimeError('model: function did not create the file')
            node.ret = r
            v.t[p] = ('f', sub.pending[0], sub.pending[1])
            mb.outputs.add(p)
            return copy.deepcopy(r)
        except Exception as e:
            node.raised = True
            node.exc = type(e).__name__
            mb.failed_outputs.add(p)
            for d in reversed(to_make):
                if v.is_dir(d) and not v.children(d):
                    del v.t[d]
                    mb.created.discard(d)
                else:
                    break
            raise
        finally:
            mb.in_progress.discard(p)
            mb.in_progress_builders.pop(p, None)
            sub.finished = True


# --------------------------------------------------------------------------------------------------
# trace utilities (C05 / C06 / C13 oracles)
# --------------------------------------------------------------------------------------------------

def index_forest(forest):
    idx = {}
    for root in forest:
        for n in root.walk():
            if not n.setup_failed:
                idx.setdefault(n.key, n)
    return idx


def substitute_real_meta(forest, step_mtimes, real_meta, model_hash=None, real_hash=None):
    """Replace the model's METADATA answers for outputs written in this step (which carry this
    step's deterministic mtime) by the metadata of the real file after the build: if the library
    legitimately reused the file in place it still has its old mtime."""
    model_hash = model_hash or {}
    real_hash = real_hash or {}
    for root in forest:
        for n in root.walk():
            for i, e in enumerate(n.events):
                if isinstance(e, Node):
                    continue
                if e[1] == 'read' and isinstance(e[4], tuple) and e[4][0] == 'META':
                    p = e[2]
                    if p in step_mtimes and e[4][2] == step_mtimes[p] and p in real_meta:
                        n.events[i] = ('q', 'read', p, e[3], ('META',) + tuple(real_meta[p]))
                elif e[1] == 'read' and isinstance(e[4], tuple) and e[4][0] == 'HASH' and real_hash:
                    # an output that was legitimately kept although its content had been edited with
                    # preserved metadata (METADATA integrity) is read back with its real content
                    p = e[2]
                    if p in real_hash and p in model_hash and e[4][1] == model_hash[p]:
                        n.events[i] = ('q', 'read', p, e[3], ('HASH', real_hash[p]))


def events_equal(a, b):
    if isinstance(a, Node) != isinstance(b, Node):
        return False
    if isinstance(a, Node):
        if (a.key, a.fname, a.raised, a.setup_failed, a.cmp) != (b.key, b.fname, b.raised, b.setup_failed, b.cmp):
            return False
        if canon([a.args, a.kwargs]) != canon([b.args, b.kwargs]):
            return False
        if len(a.events) != len(b.events):
            return False
        return all(events_equal(x, y) for x, y in zip(a.events, b.events))
    return norm_event(a) == norm_event(b)


def norm_event(e):
    ans = e[4]
    if e[1] == 'list_dir' and isinstance(ans, list):
        ans = sorted(ans)
    elif e[1] in ('walk', 'walk_bu') and isinstance(ans, list):
        ans = sorted((d, tuple(sorted(a)), tuple(sorted(b))) for d, a, b in ans)
    return (e[1], e[2], e[3], json.dumps(ans, default=list, sort_keys=True))


def version_tag(versions, fname):
    return canon_text(versions.get(fname))
