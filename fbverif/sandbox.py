"""Per-scenario sandbox: a private directory tree with the universe root ``R/`` and a private temp
directory (so FileBackups' temporary directories are observable), on the same file system."""
import os
import shutil
import tempfile

from . import env


LONG_NAME = 'L' * 300      # a directory name longer than NAME_MAX: mkdir fails with ENAMETOOLONG


class Sandbox:
    def __init__(self):
        self.top = tempfile.mkdtemp(prefix='fbv_', dir=env.SCRATCH_BASE)
        self.R = os.path.join(self.top, 'R')
        os.mkdir(self.R)
        self.tmp = os.path.join(self.top, 'tmp')
        os.mkdir(self.tmp)
        self._old_tempdir = tempfile.tempdir
        tempfile.tempdir = self.tmp
        self.clock = 0
        self._saved = 0

    def ap(self, rel):
        return os.path.join(self.R, rel.replace('@LONG', LONG_NAME)) if rel else self.R

    def rel(self, p):
        return os.path.relpath(p, self.R).replace(LONG_NAME, '@LONG')

    def close(self):
        tempfile.tempdir = self._old_tempdir
        shutil.rmtree(self.top, ignore_errors=True)

    def next_mtime(self):
        """Logical clock for externally written files: strictly increasing, several ticks per second with
        different nanosecond parts (so a comparison that truncates timestamps to seconds misses changes)."""
        self.clock += 1
        return (500_000_000 + self.clock // 3) * 1_000_000_000 + (self.clock % 3) * 333_333_333 + (self.clock * 7919) % 1000

    def tmp_listing(self):
        return sorted(os.listdir(self.tmp))

    # ---- save / restore of the whole universe (used by crash-point and fault enumeration) ------
    def save(self):
        self._saved += 1
        dst = os.path.join(self.top, 'save%d' % self._saved)
        copy_tree(self.R, dst)
        return dst

    def restore(self, saved):
        for name in os.listdir(self.R):
            p = os.path.join(self.R, name)
            if os.path.isdir(p) and not os.path.islink(p):
                shutil.rmtree(p)
            else:
                os.remove(p)
        for name in os.listdir(saved):
            s = os.path.join(saved, name)
            d = os.path.join(self.R, name)
            if os.path.isdir(s) and not os.path.islink(s):
                copy_tree(s, d)
            else:
                copy_file(s, d)
        for name in os.listdir(self.tmp):
            p = os.path.join(self.tmp, name)
            if os.path.isdir(p):
                shutil.rmtree(p, ignore_errors=True)
            else:
                os.remove(p)


def copy_file(s, d):
    if os.path.islink(s):
        os.symlink(os.readlink(s), d)      # links are kept as links (their text still names the universe root)
        return
    with open(s, 'rb') as f:
        data = f.read()
    with open(d, 'wb') as f:
        f.write(data)
    st = os.stat(s)
    os.utime(d, ns=(st.st_atime_ns, st.st_mtime_ns))


def copy_tree(src, dst):
    os.mkdir(dst)
    for name in os.listdir(src):
        s = os.path.join(src, name)
        d = os.path.join(dst, name)
        if os.path.isdir(s) and not os.path.islink(s):
            copy_tree(s, d)
        else:
            copy_file(s, d)


def snapshot(root):
    """path -> ('d',) | ('f', bytes, mtime_ns, inode)"""
    if not os.path.isdir(root):
        return {}            # the universe root itself was removed: every oracle that compares trees will say so
    t = {root: ('d',)}
    stack = [root]
    while stack:
        r = stack.pop()
        with os.scandir(r) as it:
            for e in it:
                p = e.path
                if e.is_dir(follow_symlinks=False) or (e.is_symlink() and os.path.isdir(p) and
                                                       not os.path.realpath(p).startswith(root + os.sep)):
                    # a symbolic link to a directory outside the universe is, for the library, a directory (C13)
                    t[p] = ('d',)
                    stack.append(p)
                else:
                    # a symbolic link to a regular file is, for the library, that file (stat and open follow links);
                    # a dangling link does not exist for it
                    try:
                        st = os.stat(p)
                        with open(p, 'rb') as f:
                            t[p] = ('f', f.read(), st.st_mtime_ns, st.st_ino)
                    except OSError:
                        continue            # dangling link (target gone or below a non-directory)
    return t


def model_tree(snap):
    return {k: (v[:3] if v[0] == 'f' else v) for k, v in snap.items()}
