#!/usr/bin/env python3
"""Developer tool: run one shard of a property in-process and print failure buckets with the smallest (shrunk) witness.
usage: tools/explore.py C01 [examples] [seed] [--all-clauses] [--shrink]"""
import sys, os, json, collections, importlib, time
sys.path.insert(0, os.path.dirname(os.path.dirname(os.path.abspath(__file__))))
os.environ.setdefault('PYTHONHASHSEED', '0')
from fbverif import runner
pid = sys.argv[1]
n = int(sys.argv[2]) if len(sys.argv) > 2 and not sys.argv[2].startswith('-') else 300
seed = int(sys.argv[3]) if len(sys.argv) > 3 and not sys.argv[3].startswith('-') else 1
mod = importlib.import_module('fbverif.props.' + pid.lower())
if '--all-clauses' in sys.argv:
    mod.CLAUSES = tuple('C%02d' % i for i in range(1, 19))
t = time.time()
r = mod.run_shard({'seed': seed, 'examples': n, 'tier': 'quick', 'i': 0})
print('wall %.1fs evaluations %d nontrivial %d failures %d' % (time.time() - t, r['evaluations'], len(r['nontrivial']), len(r['failures'])))
print(json.dumps(dict(sorted(r['counters'].items()))))
b = collections.OrderedDict()
for f in r['failures']:
    b.setdefault((f['clause'], f['sig']), []).append(f)
for k, fs in b.items():
    print('=' * 100)
    print(len(fs), k)
    sm = min(fs, key=lambda f: len(json.dumps(f['case'])))
    if '--shrink' in sys.argv:
        sm = runner.shrink(mod, sm, 20)
    print(json.dumps(sm['case']))
    print(sm['detail'][:1500])
