"""Hand-written semantic mutants of file_builder (DESIGN.md section 5, lists "M").
Each entry: name, target properties, file, old text (must match exactly once), new text."""

FB = 'file_builder/file_builder.py'
SOE = 'file_builder/simple_operation_executor.py'
CACHE = 'file_builder/cache.py'
BD = 'file_builder/build_dirs.py'
CF = 'file_builder/created_files.py'
BK = 'file_builder/file_backups.py'
JU = 'file_builder/json_util.py'

MUTANTS = [
    # ---- C01
    dict(name='c01_nested_output_not_checked', props=['C01'], file=FB,
         old="                (not operation.raised and\n                    not self._is_build_file_cached(operation)) or\n",
         new=""),
    dict(name='c01_ignore_exception_type', props=['C01', 'C04'], file=FB,
         old="            JsonUtil.is_equal(return_value, operation.return_value) and\n            exception_type_str == operation.exception_type_str)",
         new="            JsonUtil.is_equal(return_value, operation.return_value))"),
    dict(name='c01_skip_apply_cached_subbuild', props=['C01'], file=FB,
         old="        if cached_operation is not None:\n            self._apply_cached_suboperations(cached_operation)\n            operation.suboperations = cached_operation.suboperations\n            operation.return_value = cached_operation.return_value\n\n            with self._lock:\n                operation.is_finished = True\n            self._new_cache.use_cached_operation(operation)\n        else:\n            description",
         new="        if cached_operation is not None:\n            operation.suboperations = cached_operation.suboperations\n            operation.return_value = cached_operation.return_value\n\n            with self._lock:\n                operation.is_finished = True\n            self._new_cache.use_cached_operation(operation)\n        else:\n            description"),
    dict(name='c01_commit_keeps_stale_outputs', props=['C01'], file=FB,
         old="            if (not self._simple_operation_executor.is_file(filename) and\n                    not self._simple_operation_executor.is_cache_file(\n                        filename)):\n                FileBuilder._try_to_remove_file(filename)",
         new="            pass"),
    # ---- C02
    dict(name='c02_no_restore', props=['C02'], file=FB,
         old="        self._backups.restore_all()\n        FileBuilder._create_dirs(self._old_cache.created_dirs())",
         new="        FileBuilder._create_dirs(self._old_cache.created_dirs())"),
    dict(name='c02_rollback_only_on_exception', props=['C02'], file=FB,
         old="        except BaseException:\n            # This includes exceptions that are not subclasses of Exception,",
         new="        except Exception:\n            # This includes exceptions that are not subclasses of Exception,"),
    dict(name='c02_create_dirs_before_restore', props=['C02', 'C03'], file=FB,
         old="        self._backups.restore_all()\n        FileBuilder._create_dirs(self._old_cache.created_dirs())",
         new="        FileBuilder._create_dirs(self._old_cache.created_dirs())\n        self._backups.restore_all()"),
    dict(name='c02_keep_old_created_dirs_in_rollback', props=['C02'], file=FB,
         old="        dirs_to_remove.update(self._build_dirs.norm_cased_error_created_dirs())\n\n        # Remove every file we (re)built",
         new="        dirs_to_remove.update(self._build_dirs.norm_cased_error_created_dirs())\n        for dir_ in self._old_cache.created_dirs():\n            dirs_to_remove.discard(os.path.normcase(dir_))\n\n        # Remove every file we (re)built"),
    dict(name='c09_is_dir_three_steps', props=['C09'], file=SOE,
         old="        return self._build_dirs.is_dir_norm_case(norm_cased_dir)\n",
         new="        if self._build_dirs.is_removed_norm_case(norm_cased_dir):\n            return False\n        elif os.path.isdir(norm_cased_dir):\n            self._build_dirs.handle_norm_cased_dir_exists(norm_cased_dir)\n            return True\n        else:\n            return False\n"),
    dict(name='c02_no_backup_before_overwrite', props=['C02', 'C03'], file=FB,
         old="                if (os.path.isfile(filename) and\n                        self._backups.back_up_and_remove(filename)):\n                    logger.info(\n                        'Moved {:s} to a temporary directory, in preparation '\n                        'for rebuilding the file'.format(filename))",
         new="                if os.path.isfile(filename):\n                    os.remove(filename)"),
    dict(name='c02_forget_cache_dirs_in_rollback', props=['C02'], file=FB,
         old="        created_dirs = (\n            self._build_dirs.created_dirs() + cache_file_created_dirs)",
         new="        created_dirs = self._build_dirs.created_dirs()"),
    # ---- C03
    dict(name='c03_rmtree_in_remove_empty_dirs', props=['C03', 'C12'], file=FB,
         old="            try:\n                os.rmdir(dir_)\n            except OSError:\n                continue\n            logger.info('Removed empty directory {:s}'.format(dir_))",
         new="            import shutil\n            try:\n                shutil.rmtree(dir_)\n            except OSError:\n                continue"),
    dict(name='c03_clean_removes_all_files_in_created_dirs', props=['C03', 'C12'], file=FB,
         old="        FileBuilder._try_to_remove_file(cache_filename)\n        FileBuilder._remove_empty_dirs(cache.created_dirs())",
         new="        FileBuilder._try_to_remove_file(cache_filename)\n        for dir_ in cache.created_dirs():\n            if os.path.isdir(dir_):\n                for name in os.listdir(dir_):\n                    FileBuilder._try_to_remove_file(os.path.join(dir_, name))\n        FileBuilder._remove_empty_dirs(cache.created_dirs())"),
    # ---- C04
    dict(name='c04_old_outputs_visible', props=['C04', 'C01'], file=SOE,
         old="        elif self._old_cache.created_norm_cased_file(norm_cased_filename):\n            return False\n",
         new=""),
    dict(name='c04_error_dirs_stay_visible', props=['C04', 'C10'], file=BD,
         old="                    self._error_created_dirs.add(parent)\n                    self._maybe_removed_dirs.add(parent)",
         new="                    self._error_created_dirs.add(parent)"),
    dict(name='c04_list_dir_real', props=['C04'], file=SOE,
         old="        self._assert_is_dir(dir_, created_files)\n        subfiles = []\n        for subfile in self._list_dir_superset(dir_, created_files):\n            absolute_subfile = os.path.join(dir_, subfile)\n            if self.exists(absolute_subfile, created_files):\n                subfiles.append(subfile)\n        return subfiles",
         new="        self._assert_is_dir(dir_, created_files)\n        return list(self._list_dir_superset(dir_, created_files))"),
    # ---- C05
    dict(name='c05_unsorted_listing', props=['C05'], file=SOE,
         old="        return sorted(subfiles)",
         new="        return subfiles"),
    dict(name='c05_raised_child_blocks_subbuild_reuse', props=['C05'], file=FB,
         old="        if (cached_operation is not None and not cached_operation.raised and\n                JsonUtil.is_equal(\n                    self._old_cache.get_func_version(operation.func_name),\n                    self._new_cache.get_func_version(operation.func_name)) and\n                self._are_suboperations_cached(\n                    cached_operation, CreatedFiles())):\n            return cached_operation",
         new="        if (cached_operation is not None and not cached_operation.raised and\n                not any(getattr(s, 'raised', False) for s in cached_operation.suboperations) and\n                JsonUtil.is_equal(\n                    self._old_cache.get_func_version(operation.func_name),\n                    self._new_cache.get_func_version(operation.func_name)) and\n                self._are_suboperations_cached(\n                    cached_operation, CreatedFiles())):\n            return cached_operation"),
    dict(name='c05_always_rewrite', props=['C05'], file=FB,
         old="        cached_operation = self._build_file_cache_lookup()\n        if cached_operation is None:\n            return False\n",
         new="        return False\n"),
    # ---- C12
    dict(name='c12_clean_keeps_cache', props=['C12'], file=FB,
         old="        FileBuilder._try_to_remove_file(cache_filename)\n        FileBuilder._remove_empty_dirs(cache.created_dirs())",
         new="        FileBuilder._remove_empty_dirs(cache.created_dirs())"),
    dict(name='c12_remove_dirs_ascending', props=['C12', 'C01'], file=FB,
         old="        sorted_dirs = sorted(dirs, key=lambda dir_: -len(dir_))",
         new="        sorted_dirs = sorted(dirs, key=lambda dir_: len(dir_))"),
    dict(name='c12_drop_add_created_dirs', props=['C12', 'C01'], file=FB,
         old="        self._new_cache.add_created_dirs(created_dirs)\n        return list(norm_cased_error_created_dirs)",
         new="        return list(norm_cased_error_created_dirs)"),
    # ---- C18
    dict(name='c18_false_hashable_collides', props=['C18'], file=JU,
         old="                return (2,)", new="                return (0,)"),
    dict(name='c18_dict_len_not_checked', props=['C18'], file=JU,
         old="            if class2 != dict or len(value1) != len(value2):",
         new="            if class2 != dict:"),
    dict(name='c18_int_before_bool_key', props=['C18'], file=JU,
         old="        elif isinstance(key, bool):\n            if bool(key):\n                return 'true'\n            else:\n                return 'false'\n        elif isinstance(key, int):\n            return repr(key)",
         new="        elif isinstance(key, int):\n            return repr(key)"),
]

MUTANTS += [
    # ---- C06: delete the version test in each of the four places
    dict(name='c06_no_version_check_nested_build_file', props=['C06', 'C01'], file=FB,
         old="        if (not JsonUtil.is_equal(\n                self._old_cache.get_func_version(operation.func_name),\n                self._new_cache.get_func_version(operation.func_name)) or\n                (not operation.raised and",
         new="        if ((not operation.raised and"),
    dict(name='c06_no_version_check_nested_subbuild', props=['C06', 'C01'], file=FB,
         old="        if (not JsonUtil.is_equal(\n                self._old_cache.get_func_version(operation.func_name),\n                self._new_cache.get_func_version(operation.func_name)) or\n\n                # If setup failed, then the conditions that gave rise to the\n                # failure might no longer hold. See SetupFailedTest for an\n                # example.\n                operation.setup_failed):",
         new="        if (operation.setup_failed):"),
    dict(name='c06_no_version_check_build_file_lookup', props=['C06', 'C01'], file=FB,
         old="                cached_operation.func_name == operation.func_name and\n                JsonUtil.is_equal(\n                    self._old_cache.get_func_version(operation.func_name),\n                    self._new_cache.get_func_version(operation.func_name)) and\n",
         new="                cached_operation.func_name == operation.func_name and\n"),
    dict(name='c06_no_version_check_subbuild_lookup', props=['C06', 'C01'], file=FB,
         old="        if (cached_operation is not None and not cached_operation.raised and\n                JsonUtil.is_equal(\n                    self._old_cache.get_func_version(operation.func_name),\n                    self._new_cache.get_func_version(operation.func_name)) and\n                self._are_suboperations_cached(",
         new="        if (cached_operation is not None and not cached_operation.raised and\n                self._are_suboperations_cached("),
    dict(name='c06_versions_compared_with_python_eq', props=['C06'], file=FB,
         old="        if (cached_operation is not None and not cached_operation.raised and\n                JsonUtil.is_equal(\n                    self._old_cache.get_func_version(operation.func_name),\n                    self._new_cache.get_func_version(operation.func_name)) and\n                self._are_suboperations_cached(",
         new="        if (cached_operation is not None and not cached_operation.raised and\n                (self._old_cache.get_func_version(operation.func_name) ==\n                    self._new_cache.get_func_version(operation.func_name)) and\n                self._are_suboperations_cached("),
]

MUTANTS += [
    # ---- C08
    dict(name='c08_no_assert_no_repeats', props=['C08'], file=CACHE,
         old="        with self._files_lock, self._subbuilds_lock:\n            self._assert_no_repeats(operation)\n            self._use_cached_operation(operation)",
         new="        with self._files_lock, self._subbuilds_lock:\n            self._use_cached_operation(operation)"),
    dict(name='c08_setup_failed_records_registered', props=['C08'], file=CACHE,
         old="            if not operation.setup_failed:\n                subbuild_key = Cache.subbuild_key(operation)\n                subbuilds[subbuild_key] = operation\n            return operation",
         new="            subbuild_key = Cache.subbuild_key(operation)\n            subbuilds[subbuild_key] = operation\n            return operation"),
    dict(name='c08_setup_failed_child_reusable', props=['C08'], file=FB,
         old="                # If setup failed, then the conditions that gave rise to the\n                # failure might no longer hold. See SetupFailedTest for an\n                # example.\n                operation.setup_failed):\n            return False\n\n        # Return False in the case where _subbuild raises\n        subbuild_key = Cache.subbuild_key(operation)\n        if self._new_cache.has_subbuild(subbuild_key):\n            return False\n",
         new="                False):\n            return False\n\n        # Return False in the case where _subbuild raises\n        subbuild_key = Cache.subbuild_key(operation)\n        if not operation.setup_failed and self._new_cache.has_subbuild(subbuild_key):\n            return False\n"),
    dict(name='c08_nested_dup_check_dropped', props=['C08'], file=FB,
         old="        subbuild_key = Cache.subbuild_key(operation)\n        if self._new_cache.has_subbuild(subbuild_key):\n            return False\n\n        return self._are_suboperations_cached(operation, created_files)",
         new="        return self._are_suboperations_cached(operation, created_files)"),
    # ---- C10
    dict(name='c10_failed_output_not_removed', props=['C10'], file=FB,
         old="        FileBuilder._try_to_remove_file(filename)\n        self._build_dirs.error_building_file(filename)\n        logger.warning(",
         new="        self._build_dirs.error_building_file(filename)\n        logger.warning("),
    dict(name='c10_error_dirs_not_removed_at_commit', props=['C10'], file=FB,
         old="        dirs_to_remove = set(norm_cased_error_created_dirs)\n        for dir_ in self._old_cache.created_dirs():",
         new="        dirs_to_remove = set()\n        for dir_ in self._old_cache.created_dirs():"),
    dict(name='c10_no_error_building_file_on_func_failure', props=['C10'], file=FB,
         old="        FileBuilder._try_to_remove_file(filename)\n        self._build_dirs.error_building_file(filename)\n        logger.warning(",
         new="        FileBuilder._try_to_remove_file(filename)\n        logger.warning("),
    dict(name='c10_make_dirs_no_undo', props=['C10'], file=FB,
         old="            FileBuilder._remove_empty_dirs(made_dirs)\n            raise",
         new="            raise"),
    # ---- C13
    dict(name='c13_metadata_only_size', props=['C13'], file=SOE,
         old="            'size': stats.st_size,\n            'timeNs': stats.st_mtime_ns,",
         new="            'size': stats.st_size,"),
    dict(name='c13_hash_read_uses_metadata', props=['C13'], file=SOE,
         old="        elif file_comparison_name == 'HASH':\n            return self._file_hash(filename)",
         new="        elif file_comparison_name == 'HASH':\n            return self._file_metadata(filename)"),
    dict(name='c13_output_integrity_mtime_seconds', props=['C13'], file=SOE,
         old="            'timeNs': stats.st_mtime_ns,",
         new="            'timeNs': stats.st_mtime_ns // 10**9,"),
]

MUTANTS += [
    # ---- C07
    dict(name='c07_is_equal_bool_clause_removed', props=['C07', 'C18'], file=JU,
         old="        elif (class1 == bool) != (class2 == bool):\n            # Booleans are special, because True == 1 and False == 0\n            return False\n",
         new=""),
    dict(name='c07_list_hashable_no_tag', props=['C07', 'C18'], file=JU,
         old="            return (0,) + tuple(\n                [JsonUtil.to_hashable(element) for element in value])",
         new="            return tuple(\n                [JsonUtil.to_hashable(element) for element in value])"),
    dict(name='c07_abspath_without_fsdecode', props=['C07'], file=FB,
         old="        return str(os.path.abspath(os.fsdecode(filename)))",
         new="        return str(os.path.abspath(filename if isinstance(filename, (str, bytes)) else os.fspath(filename)))"),
    dict(name='c07_kwargs_not_in_subbuild_key', props=['C07'], file=CACHE,
         old="        return JsonUtil.to_hashable([\n            operation.func_name, operation.args, operation.kwargs])",
         new="        return JsonUtil.to_hashable([\n            operation.func_name, operation.args, sorted(operation.kwargs)])"),
    dict(name='c07_build_file_lookup_ignores_kwargs', props=['C07'], file=FB,
         old="                JsonUtil.is_equal(cached_operation.args, operation.args) and\n                JsonUtil.is_equal(\n                    cached_operation.kwargs, operation.kwargs) and\n",
         new="                JsonUtil.is_equal(cached_operation.args, operation.args) and\n"),
]

MUTANTS += [
    # ---- C16
    dict(name='c16_raised_marker_not_written', props=['C16'], file=CACHE,
         old="        if operation.raised:\n            operation_json['raised'] = True\n",
         new=""),
    dict(name='c16_return_value_via_str_float', props=['C16'], file=CACHE,
         old="            'returnValue': operation.return_value,\n            'suboperations': suboperations_json,",
         new="            'returnValue': json.loads(json.dumps(operation.return_value), parse_int=float),\n            'suboperations': suboperations_json,"),
    dict(name='c16_created_dirs_dropped_on_write', props=['C16', 'C12'], file=CACHE,
         old="            'createdDirs': created_dirs,",
         new="            'createdDirs': [d for d in created_dirs if d.isascii()],"),
    dict(name='c16_cache_written_latin1', props=['C16'], file=CACHE,
         old="                json.dumps(cache_json, separators=(',', ':'), sort_keys=True))",
         new="                json.dumps(cache_json, separators=(',', ':'), sort_keys=True, ensure_ascii=False).encode('utf-8', 'replace').decode('utf-8'))"),
    dict(name='c16_cache_not_backed_up_before_write', props=['C16', 'C02'], file=FB,
         old="            if (os.path.isfile(cache_filename) and\n                    self._backups.back_up_and_remove(cache_filename)):\n                logger.info(\n                    'Moved cache file {:s} to a temporary directory'.format(\n                        cache_filename))\n",
         new=""),
    dict(name='c16_write_cache_before_func', props=['C16'], file=FB,
         old="            return_value = func(*((self,) + args), **kwargs)\n            self._is_finished_build = True",
         new="            self._new_cache.write(cache_filename)\n            return_value = func(*((self,) + args), **kwargs)\n            self._is_finished_build = True"),
]

MUTANTS += [
    # ---- C11
    dict(name='c11_args_not_copied_for_subbuild', props=['C11'], file=FB,
         old="                    func, [self] + copy.deepcopy(operation.args),\n                    copy.deepcopy(operation.kwargs), description)",
         new="                    func, [self] + operation.args,\n                    operation.kwargs, description)"),
    dict(name='c11_args_not_copied_for_build_file', props=['C11'], file=FB,
         old="                func, [self, filename] + copy.deepcopy(operation.args),\n                copy.deepcopy(operation.kwargs),",
         new="                func, [self, filename] + operation.args,\n                operation.kwargs,"),
    dict(name='c11_query_result_not_copied', props=['C11'], file=FB,
         old="        # Return a copy, so that the caller can't alter the cache entry\n        return copy.deepcopy(operation.return_value)",
         new="        return operation.return_value"),
    dict(name='c11_shallow_copy_of_return_value', props=['C11'], file=FB,
         old="            suboperation.is_finished = True\n            self._append_suboperation(suboperation)\n\n        # Return a copy, so that the caller can't alter the cache entry\n        return copy.deepcopy(suboperation.return_value)\n\n    def subbuild(",
         new="            suboperation.is_finished = True\n            self._append_suboperation(suboperation)\n\n        return copy.copy(suboperation.return_value)\n\n    def subbuild("),
    dict(name='c11_sanitize_returns_same_object_for_lists_of_atoms', props=['C11', 'C18'], file=JU,
         old="        if isinstance(value, (list, tuple)):\n            return list([JsonUtil.sanitize(element) for element in value])",
         new="        if cls == list and all(e.__class__ in (int, str) for e in value):\n            return value\n        if isinstance(value, (list, tuple)):\n            return list([JsonUtil.sanitize(element) for element in value])"),
]

MUTANTS += [
    # ---- C15
    dict(name='c15_clean_deletes_before_name_check', props=['C15'], file=FB,
         old="        cache = Cache.read_immutable(cache_filename)\n        if build_name is not None and cache.build_name() != build_name:\n            raise RuntimeError(\n                'The cache file was created for the build named {:s}, which '\n                'is different from the specified build name {:s}'.format(\n                    cache.build_name(), build_name))\n\n        for filename in cache.created_files():\n            FileBuilder._try_to_remove_file(filename)\n",
         new="        cache = Cache.read_immutable(cache_filename)\n        for filename in cache.created_files():\n            FileBuilder._try_to_remove_file(filename)\n        if build_name is not None and cache.build_name() != build_name:\n            raise RuntimeError(\n                'The cache file was created for the build named {:s}, which '\n                'is different from the specified build name {:s}'.format(\n                    cache.build_name(), build_name))\n\n"),
    dict(name='c15_make_cache_dirs_before_reading_cache', props=['C15'], file=FB,
         old="        sanitized_versions = FileBuilder._sanitize_versions(versions)\n\n        if os.path.isfile(cache_filename):",
         new="        sanitized_versions = FileBuilder._sanitize_versions(versions)\n        os.makedirs(os.path.join(os.path.dirname(cache_filename), '.fb_lock'), exist_ok=True)\n\n        if os.path.isfile(cache_filename):"),
    dict(name='c15_unreadable_cache_treated_as_first_build', props=['C15'], file=FB,
         old="        if os.path.isfile(cache_filename):\n            old_cache = Cache.read_immutable(cache_filename)\n            if old_cache.build_name() != build_name:",
         new="        old_cache = None\n        if os.path.isfile(cache_filename):\n            try:\n                old_cache = Cache.read_immutable(cache_filename)\n            except RuntimeError:\n                os.remove(cache_filename)\n        if old_cache is not None:\n            if old_cache.build_name() != build_name:"),
    dict(name='c15_newer_version_accepted', props=['C15'], file=CACHE,
         old="        if not JsonUtil.is_equal(\n                cache_json['cacheFileVersion'], Cache._CACHE_FILE_VERSION):",
         new="        if False:"),
    dict(name='c15_build_name_checked_after_build', props=['C15'], file=FB,
         old="            if old_cache.build_name() != build_name:\n                raise RuntimeError(\n                    'The cache file was created for the build named {:s}, '\n                    'which is different from the specified build name '\n                    '{:s}'.format(old_cache.build_name(), build_name))\n        elif",
         new="            pass\n        elif"),
]

MUTANTS += [
    # ---- C17 (sequential)
    dict(name='c17_subbuild_no_entry_check', props=['C17'], file=FB,
         old="        self._assert_not_finished()\n        if not isinstance(func_name, str):\n            raise TypeError('Function name must be a string')\n        if not callable(func):\n            raise TypeError('\"func\" must be callable')\n        sanitized_args, sanitized_kwargs = FileBuilder._sanitize_args(\n            args, kwargs, 'the subbuild function {:s}'.format(func_name))",
         new="        if not isinstance(func_name, str):\n            raise TypeError('Function name must be a string')\n        if not callable(func):\n            raise TypeError('\"func\" must be callable')\n        sanitized_args, sanitized_kwargs = FileBuilder._sanitize_args(\n            args, kwargs, 'the subbuild function {:s}'.format(func_name))"),
    dict(name='c17_root_builder_never_finished', props=['C17'], file=FB,
         old="            try:\n                return builder._build(cache_filename, func, args, kwargs)\n            finally:\n                builder._is_finished_build = True",
         new="            try:\n                return builder._build(cache_filename, func, args, kwargs)\n            finally:\n                builder._is_finished_build = False"),
    dict(name='c17_build_file_no_entry_check', props=['C17'], file=FB,
         old="        self._assert_not_finished()\n        filename = FileBuilder._sanitize_filename(filename)\n        if not isinstance(func_name, str):",
         new="        filename = FileBuilder._sanitize_filename(filename)\n        if not isinstance(func_name, str):"),
    dict(name='c17_nested_builders_not_fenced', props=['C17'], file=FB,
         old="        operation = self._operation\n        if operation is not None:\n            is_finished = operation.is_finished\n        else:\n            is_finished = self._is_finished_build\n",
         new="        operation = self._operation\n        if operation is not None:\n            is_finished = operation.is_finished and not operation.raised\n        else:\n            is_finished = self._is_finished_build\n"),
]

MUTANTS += [
    # ---- C14
    dict(name='c14_mkdir_errors_swallowed', props=['C14'], file=FB,
         old="                try:\n                    os.mkdir(parent)\n                except FileExistsError:\n                    continue\n                made_dirs.append(parent)",
         new="                try:\n                    os.mkdir(parent)\n                except OSError:\n                    continue\n                made_dirs.append(parent)"),

    dict(name='c14_apply_cached_no_undo_on_failure', props=['C14'], file=FB,
         old="        except Exception:\n            for filename in reversed(started_filenames):\n                self._build_dirs.error_building_file(filename)\n            raise",
         new="        except Exception:\n            raise"),
    dict(name='c14_backup_rename_error_swallowed', props=['C14'], file=BK,
         old="        try:\n            os.rename(filename, backup_filename)\n        except FileNotFoundError:\n            return False",
         new="        try:\n            os.rename(filename, backup_filename)\n        except OSError:\n            return False"),
    dict(name='c14_build_file_setup_error_keeps_reservation', props=['C14'], file=FB,
         old="            except Exception:\n                self._new_cache.cancel_building_file(filename)\n                raise\n        except Exception:\n            self._build_dirs.error_building_file(filename)\n            raise",
         new="            except Exception:\n                self._new_cache.cancel_building_file(filename)\n                raise\n        except Exception:\n            raise"),
    dict(name='c14_reservation_not_cancelled_when_backup_fails', props=['C14'], file=FB,
         old="            except Exception:\n                self._new_cache.cancel_building_file(filename)\n                raise\n        except Exception:",
         new="            except Exception:\n                raise\n        except Exception:"),
    dict(name='c14_make_dirs_no_undo', props=['C14'], file=FB,
         old="            FileBuilder._remove_empty_dirs(made_dirs)\n            raise",
         new="            raise"),
]

MUTANTS += [
    # ---- C08 / C09 (scheduler)
    dict(name='c08_claim_after_backup', props=['C08'], file=FB,
         old="            self._new_cache.start_building_file(filename)\n            try:\n                if (os.path.isfile(filename) and\n                        self._backups.back_up_and_remove(filename)):\n                    logger.info(\n                        'Moved {:s} to a temporary directory, in preparation '\n                        'for rebuilding the file'.format(filename))\n            except Exception:\n                self._new_cache.cancel_building_file(filename)\n                raise",
         new="            if (os.path.isfile(filename) and\n                    self._backups.back_up_and_remove(filename)):\n                pass\n            self._new_cache.start_building_file(filename)"),
    dict(name='c08_hash_memo_not_discarded_after_rebuild', props=['C08'], file=FB,
         old="            self._simple_operation_executor.forget_file_hash(filename)\n",
         new=""),
    dict(name='c09_no_creation_lock_in_build_file', props=['C09'], file=FB,
         old="        with self._build_dirs.creation_lock():\n            created_dirs = self._prepare_file_creation()\n            locked_created_dirs = self._build_dirs.started_building_file(\n                filename, created_dirs)",
         new="        created_dirs = self._prepare_file_creation()\n        locked_created_dirs = self._build_dirs.started_building_file(\n            filename, created_dirs)"),
    dict(name='c09_error_building_file_without_creation_lock', props=['C09'], file=BD,
         old="        with self._creation_lock, self._lock:\n            while parent != prev_parent:\n                count = self._build_dir_counts[parent] - 1",
         new="        with self._lock:\n            while parent != prev_parent:\n                count = self._build_dir_counts[parent] - 1"),
    dict(name='c09_start_subbuild_takes_files_lock_inside', props=['C09', 'C08'], file=CACHE,
         old="        with self._subbuilds_lock:\n            self._assert_doesnt_have_subbuild(subbuild_key, operation)\n            self._subbuilds[subbuild_key] = None",
         new="        with self._subbuilds_lock:\n            with self._files_lock:\n                self._assert_doesnt_have_subbuild(subbuild_key, operation)\n                self._subbuilds[subbuild_key] = None"),
    dict(name='c09_backup_index_unlocked', props=['C09'], file=BK,
         old="        with self._lock:\n            value = self._next_backup_index\n            self._next_backup_index += 1\n",
         new="        value = self._next_backup_index\n        os.path.isdir(self._temp_dir)\n        self._next_backup_index = value + 1\n"),
    dict(name='c09_error_after_remove_order_restored', props=['C09'], file=FB,
         old="        FileBuilder._try_to_remove_file(filename)\n        self._build_dirs.error_building_file(filename)\n        logger.warning(",
         new="        self._build_dirs.error_building_file(filename)\n        FileBuilder._try_to_remove_file(filename)\n        logger.warning("),
]

MUTANTS += [
    # ---- C17 (racing straggler)
    dict(name='c17_append_without_recheck', props=['C17'], file=FB,
         old="            with self._lock:\n                self._assert_not_finished()\n                self._operation.suboperations.append(suboperation)",
         new="            with self._lock:\n                self._operation.suboperations.append(suboperation)"),
]

MUTANTS += [
    # ---- reverts fix 81aecd7 (caught at least by the regression witness of that fix)
    dict(name='c15_version_tables_not_type_checked', props=['C15'], file=CACHE,
         old="        if (not isinstance(cache_json['funcVersions'], dict) or\n                not isinstance(cache_json['operationVersions'], dict)):\n            raise RuntimeError(\n                'Error parsing cache file {:s}'.format(filename))\n",
         new=""),
]

MUTANTS += [
    # ---- path spellings (the metamorphic layer of dsl.spell) and falsy versions
    dict(name='c04_get_size_path_not_sanitized', props=['C04', 'C01'], file=FB,
         old="                'get_size', [FileBuilder._sanitize_filename(filename)]))",
         new="                'get_size', [os.fsdecode(filename)]))"),
    dict(name='c04_walk_path_not_sanitized', props=['C04', 'C01'], file=FB,
         old="                'walk', [FileBuilder._sanitize_filename(dir_), top_down]))",
         new="                'walk', [os.fsdecode(dir_), top_down]))"),
    dict(name='c01_build_cache_path_not_sanitized', props=['C01', 'C12'], file=FB,
         old="            raise TypeError('\"func\" must be callable')\n        cache_filename = FileBuilder._sanitize_filename(cache_filename)\n",
         new="            raise TypeError('\"func\" must be callable')\n        cache_filename = os.fsdecode(cache_filename)\n"),
    dict(name='c12_clean_cache_path_not_sanitized', props=['C12'], file=FB,
         old="            raise TypeError('Build name must be a string')\n        cache_filename = FileBuilder._sanitize_filename(cache_filename)\n",
         new="            raise TypeError('Build name must be a string')\n        cache_filename = os.fsdecode(cache_filename)\n"),
    dict(name='c06_falsy_versions_not_written', props=['C06', 'C01'], file=CACHE,
         old="            'funcVersions': self._func_versions,",
         new="            'funcVersions': {k: v for k, v in self._func_versions.items() if v},"),
]
