#!/bin/sh
# Quietness protocol (DESIGN.md section 10.1): every registered quick check, several seeds, fresh processes.
# Outputs go to a scratch directory so that the committed evidence files are not touched.
# usage: tools/quiet.sh [tier] [seeds...]
cd "$(dirname "$0")/.." || exit 2
TIER=${1:-quick}; shift
SEEDS=${*:-2 3 4 5 6}
OUT=$(mktemp -d /tmp/fbv_quiet_XXXXXX)
rc=0
for seed in $SEEDS; do
  for p in $(python3 -c "import json; print(' '.join(c['property_id'] for c in json.load(open('MANIFEST.json'))['checks']))"); do
    FBV_OUT_DIR=$OUT VERIF_SEED=$seed ./check $p --tier $TIER > $OUT/$p.$seed.log 2>&1
    r=$?
    echo "seed=$seed $p rc=$r $(grep -v '^counters' $OUT/$p.$seed.log | tail -1 | cut -c1-150)"
    if [ $r -ne 0 ]; then rc=1; grep -v '^counters' $OUT/$p.$seed.log | tail -15 | cut -c1-1500; cp -r $OUT/replays /tmp/fbv_quiet_last_replays 2>/dev/null; fi
  done
done
rm -rf "$OUT"
exit $rc
