#!/usr/bin/env python3
"""Developer tool: parallel exploration of one property module over all oracle clauses.
usage: tools/pexplore.py C01 [total examples] [seed] [--mine] [--noshrink]"""
import sys, os, json, collections, importlib, time, multiprocessing
sys.path.insert(0, os.path.dirname(os.path.dirname(os.path.abspath(__file__))))
os.environ.setdefault('PYTHONHASHSEED', '0')
from fbverif import runner
pid = sys.argv[1]
n = int(sys.argv[2]) if len(sys.argv) > 2 and not sys.argv[2].startswith('-') else 8000
seed = int(sys.argv[3]) if len(sys.argv) > 3 and not sys.argv[3].startswith('-') else 1
ALL = tuple('C%02d' % i for i in range(1, 19))
mod = importlib.import_module('fbverif.props.' + pid.lower())
if '--mine' not in sys.argv:
    mod.CLAUSES = ALL
def work(i):
    return mod.run_shard({'seed': seed * 1000 + i, 'examples': n // 16, 'tier': 'quick', 'i': i})
t = time.time()
with multiprocessing.get_context('fork').Pool(16) as pool:
    rs = pool.map(work, range(16))
ev = sum(r['evaluations'] for r in rs)
c = collections.Counter()
for r in rs: c.update(r['counters'])
fails = [f for r in rs for f in r['failures']]
print('wall %.1fs evaluations %d failures %d' % (time.time() - t, ev, len(fails)))
print(json.dumps(dict(sorted(c.items()))))
b = collections.OrderedDict()
for f in fails:
    b.setdefault((f['clause'], f['sig']), []).append(f)
for k, fs in sorted(b.items()):
    print('=' * 100)
    print(len(fs), k)
    sm = min(fs, key=lambda f: len(json.dumps(f['case'])))
    if '--noshrink' not in sys.argv:
        sm = runner.shrink(mod, sm, 15)
    cs = dict(sm['case']); cs['prog'] = dict(cs['prog'], universe='...')
    print(json.dumps(cs))
    print(sm['detail'][:1200])
