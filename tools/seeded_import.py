#!/usr/bin/env python3
"""Import a sub-agent's deliverables (/tmp/seed/<ID>_out/patch_X.diff, demo_X.py, notes.md) into seeded/<ID>-x/.
usage: tools/seeded_import.py C06 A "what it needs to manifest" [out-dir-suffix new-letter]"""
import json, os, shutil, sys
HERE = os.path.dirname(os.path.dirname(os.path.abspath(__file__)))
pid, letter, needs = sys.argv[1], sys.argv[2], sys.argv[3]
suffix = sys.argv[4] if len(sys.argv) > 4 else ''
new_letter = sys.argv[5] if len(sys.argv) > 5 else letter.lower()
src = '/tmp/seed/%s_out%s' % (pid, suffix)
dst = os.path.join(HERE, 'seeded', '%s-%s' % (pid, new_letter))
os.makedirs(dst, exist_ok=True)
shutil.copy(os.path.join(src, 'patch_%s.diff' % letter), os.path.join(dst, 'patch.diff'))
shutil.copy(os.path.join(src, 'demo_%s.py' % letter), os.path.join(dst, 'demo.py'))
if os.path.exists(os.path.join(src, 'notes.md')):
    shutil.copy(os.path.join(src, 'notes.md'), os.path.join(dst, 'agent_notes.md'))
meta = {'property': pid, 'origin': 'independent sub-agent given only the property text and a scratch worktree of /repo (HEAD with the fix: commits)',
        'needs_to_manifest': needs, 'demo': 'demo.py', 'check_with': [pid],
        'confirmed': 'tools/seeded_eval.py --only %s-%s: demo exits 0 on the pristine copy, the 69 repository tests pass with the patch, demo exits non-zero with the patch' % (pid, new_letter)}
json.dump(meta, open(os.path.join(dst, 'meta.json'), 'w'), indent=1)
print('imported', dst)
