#!/bin/sh
# Offline setup: make sure Hypothesis is importable by /venv/bin/python (wheelhouse only, no network).
set -e
cd "$(dirname "$0")/.."
if ! /venv/bin/python -c 'import hypothesis' 2>/dev/null; then
    PIP_NO_INDEX=1 /venv/bin/pip install --no-index --find-links /opt/veriftools/wheels hypothesis
fi
/venv/bin/python -c 'import hypothesis, sys; print("hypothesis", hypothesis.__version__, "python", sys.version.split()[0])'
mkdir -p evidence
