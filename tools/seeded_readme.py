#!/usr/bin/env python3
"""Render seeded/README.md from seeded/*/meta.json and last_eval.json."""
import json, os
HERE = os.path.dirname(os.path.dirname(os.path.abspath(__file__)))
sd = os.path.join(HERE, 'seeded')
rows = []
for n in sorted(os.listdir(sd)):
    d = os.path.join(sd, n)
    if not os.path.isdir(d):
        continue
    m = json.load(open(os.path.join(d, 'meta.json')))
    e = json.load(open(os.path.join(d, 'last_eval.json'))) if os.path.exists(os.path.join(d, 'last_eval.json')) else {}
    caught = ['%s (%s)' % (k, v['first'].split('clause=')[1].split(' ')[0] if 'clause=' in v['first'] else '?') for k, v in sorted(e.get('checks', {}).items()) if v['rc'] == 1]
    missed = [k for k, v in sorted(e.get('checks', {}).items()) if v['rc'] != 1]
    rows.append((n, m['property'], m['needs_to_manifest'], e.get('tests_with_patch', '?'), e.get('demo_pristine_rc', '?'), e.get('demo_patched_rc', '?'), caught, missed, m.get('history', '')))
with open(os.path.join(sd, 'README.md'), 'w') as f:
    f.write('# Seeded changes\n\nEach directory holds one change to btrekkie/file-builder written by an independent sub-agent that was given only the text of one\n'
            'property and a scratch worktree of `/repo` (nothing from `/verif`): `patch.diff`, the agent\'s demonstration `demo.py` (exits 0 on the\n'
            'unchanged library, non-zero with the change), `meta.json` (property, what it needs in order to manifest, what was run) and\n'
            '`last_eval.json` (result of `tools/seeded_eval.py --save`). Every change below was confirmed here: the 69 repository tests pass with\n'
            'it, the demonstration passes without it and fails with it. None of them is ever committed to `/repo`.\n\n'
            'To run the checks against one: `git -C /repo apply seeded/<id>/patch.diff; ./check <ID> --tier quick; git -C /repo checkout -- .`\n'
            '(or `tools/seeded_eval.py --only <id>`, which uses a scratch copy and `VERIF_REPO`).\n\n'
            '| id | breaks | needs | tests with patch | demo pristine/patched rc | quick checks that report a VIOLATION (clause) | run but quiet | notes |\n|---|---|---|---|---|---|---|---|\n')
    for r in rows:
        f.write('| %s | %s | %s | %s | %s / %s | %s | %s | %s |\n' % (r[0], r[1], r[2], r[3], r[4], r[5], '; '.join(r[6]) or '**none**', ', '.join(r[7]) or '-', r[8]))
print('rows', len(rows))
