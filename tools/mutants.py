#!/usr/bin/env python3
"""Mutation self-test (DESIGN.md section 10): applies hand-written semantic mutants of the library one at a
time to a scratch copy outside /repo and /verif, verifies that the repository's own test suite still passes on
the mutant, then runs the quick check of each target property against the copy (VERIF_REPO) and reports which
mutants are caught.  Nothing here is used by registered commands.

usage: tools/mutants.py [--only substr] [--tier quick] [--skip-tests] [--keep]
"""
import json
import os
import shutil
import subprocess
import sys
import tempfile
import time

HERE = os.path.dirname(os.path.dirname(os.path.abspath(__file__)))
sys.path.insert(0, HERE)
from tools.mutant_table import MUTANTS  # noqa: E402


def run(cmd, cwd, env=None, timeout=900):
    e = dict(os.environ)
    e.update(env or {})
    p = subprocess.run(cmd, cwd=cwd, env=e, stdout=subprocess.PIPE, stderr=subprocess.STDOUT, timeout=timeout, text=True)
    return p.returncode, p.stdout


def main():
    args = sys.argv[1:]
    only = args[args.index('--only') + 1] if '--only' in args else None
    tier = args[args.index('--tier') + 1] if '--tier' in args else 'quick'
    results = []
    for m in MUTANTS:
        if only and only not in m['name']:
            continue
        top = tempfile.mkdtemp(prefix='fbv_mut_', dir='/tmp')
        try:
            shutil.copytree('/repo/file_builder', os.path.join(top, 'file_builder'))
            path = os.path.join(top, m['file'])
            src = open(path).read()
            if src.count(m['old']) != 1:
                results.append((m['name'], 'PATCH-DOES-NOT-APPLY', {}))
                print(m['name'], 'patch does not apply (%d matches)' % src.count(m['old']))
                continue
            open(path, 'w').write(src.replace(m['old'], m['new']))
            tests = 'skipped'
            if '--skip-tests' not in args:
                rc, out = run(['/venv/bin/python', '-m', 'pytest', '-q', '-x', '-p', 'no:cacheprovider', '--timeout=900'], top)
                tests = 'pass' if rc == 0 else 'FAIL'
            verdicts = {}
            out_dir = os.path.join(top, 'out')
            os.makedirs(out_dir)
            for prop in m['props']:
                t = time.time()
                rc, out = run([os.path.join(HERE, 'check'), prop, '--tier', tier], HERE,
                              {'VERIF_REPO': top, 'FBV_OUT_DIR': out_dir})
                clause = [l for l in out.splitlines() if l.startswith('violation:')]
                verdicts[prop] = {'rc': rc, 'wall': round(time.time() - t, 1), 'first': clause[0][:160] if clause else out.strip().splitlines()[-1][:160]}
            results.append((m['name'], tests, verdicts))
            print('%-45s tests=%s %s' % (m['name'], tests, json.dumps(verdicts)))
            sys.stdout.flush()
        finally:
            if '--keep' not in args:
                shutil.rmtree(top, ignore_errors=True)
    caught = sum(1 for _n, _t, v in results if any(x['rc'] == 1 for x in v.values()))
    print('caught %d of %d mutants' % (caught, len(results)))


if __name__ == '__main__':
    main()
