#!/usr/bin/env python3
"""Evaluate seeded changes (seeded/<id>/patch.diff) against the checks.

For each seeded change: copy /repo/file_builder to a scratch directory outside /repo and /verif, confirm that the
demonstration passes on the pristine copy, apply the patch, confirm that the repository's tests still pass and that
the demonstration now fails, run the quick (or thorough) checks of the listed properties against the patched copy
(VERIF_REPO), report which checks raise a VIOLATION, remove the scratch copy.

usage: tools/seeded_eval.py [--only substr] [--props C01,C05 | --all-props] [--tier quick]
"""
import json
import os
import shutil
import subprocess
import sys
import tempfile
import time

HERE = os.path.dirname(os.path.dirname(os.path.abspath(__file__)))


def run(cmd, cwd, env=None, timeout=3600):
    e = dict(os.environ)
    e.update(env or {})
    p = subprocess.run(cmd, cwd=cwd, env=e, stdout=subprocess.PIPE, stderr=subprocess.STDOUT, timeout=timeout, text=True)
    return p.returncode, p.stdout


def main():
    args = sys.argv[1:]
    only = args[args.index('--only') + 1] if '--only' in args else None
    tier = args[args.index('--tier') + 1] if '--tier' in args else 'quick'
    props_arg = args[args.index('--props') + 1].split(',') if '--props' in args else None
    all_props = [c['property_id'] for c in json.load(open(os.path.join(HERE, 'MANIFEST.json')))['checks']]
    sdir = os.path.join(HERE, 'seeded')
    rows = []
    for name in sorted(os.listdir(sdir)):
        d = os.path.join(sdir, name)
        if not os.path.isdir(d) or (only and only not in name):
            continue
        meta = json.load(open(os.path.join(d, 'meta.json')))
        top = tempfile.mkdtemp(prefix='fbv_seed_', dir='/tmp')
        try:
            shutil.copytree('/repo/file_builder', os.path.join(top, 'file_builder'))
            demo = os.path.join(d, meta.get('demo', 'demo.py'))
            rc0, out0 = run(['/venv/bin/python', demo], top)
            rcp, outp = run(['patch', '-p1', '--no-backup-if-mismatch', '-i', os.path.join(d, 'patch.diff')], top)
            if rcp != 0:
                print(name, 'PATCH FAILED', outp[-300:])
                continue
            rct, outt = run(['/venv/bin/python', '-m', 'pytest', '-q', '-x', '-p', 'no:cacheprovider', '--timeout=900'], top)
            rc1, out1 = run(['/venv/bin/python', demo], top)
            props = props_arg or (all_props if '--all-props' in args else meta.get('check_with', [meta['property']]))
            verdicts = {}
            outd = os.path.join(top, 'out')
            os.makedirs(outd)
            for p in props:
                t = time.time()
                rc, out = run([os.path.join(HERE, 'check'), p, '--tier', tier], HERE, {'VERIF_REPO': top, 'FBV_OUT_DIR': outd})
                v = [l for l in out.splitlines() if l.startswith('violation:')]
                verdicts[p] = {'rc': rc, 'wall': round(time.time() - t, 1), 'first': (v[0][:170] if v else out.strip().splitlines()[-1][:120])}
            row = {'seeded': name, 'property': meta['property'], 'demo_pristine_rc': rc0, 'tests_with_patch': 'pass' if rct == 0 else 'FAIL',
                   'demo_patched_rc': rc1, 'checks': verdicts}
            rows.append(row)
            print(json.dumps(row))
            if '--save' in args:
                prev = {}
                lp = os.path.join(d, 'last_eval.json')
                if os.path.exists(lp):
                    prev = json.load(open(lp))
                prev.setdefault('checks', {}).update({k: dict(v, tier=tier) for k, v in verdicts.items()})
                prev.update({k: row[k] for k in ('demo_pristine_rc', 'tests_with_patch', 'demo_patched_rc')})
                json.dump(prev, open(lp, 'w'), indent=1)
            sys.stdout.flush()
        finally:
            shutil.rmtree(top, ignore_errors=True)
    caught = sum(1 for r in rows if any(v['rc'] == 1 for v in r['checks'].values()))
    print('caught %d of %d seeded changes' % (caught, len(rows)))


if __name__ == '__main__':
    main()
