#!/usr/bin/env python3
"""Regenerates /verif/MANIFEST.json from the metadata of the implemented property modules."""
import importlib
import json
import os
import sys

HERE = os.path.dirname(os.path.dirname(os.path.abspath(__file__)))
sys.path.insert(0, HERE)

props = [json.loads(l) for l in open(os.path.join(HERE, 'properties.jsonl'))]
checks = []
na = []
for p in props:
    pid = p['id']
    path = os.path.join(HERE, 'fbverif', 'props', pid.lower() + '.py')
    if not os.path.exists(path):
        na.append({'property_id': pid, 'reason': 'check not built yet (planned: DESIGN.md section 5 %s)' % pid})
        continue
    m = importlib.import_module('fbverif.props.' + pid.lower())
    if getattr(m, 'NOT_CLAIMED', None):
        na.append({'property_id': pid, 'reason': m.NOT_CLAIMED})
        continue
    checks.append({
        'property_id': pid,
        'quick_cmd': './check %s --tier quick' % pid,
        'thorough_cmd': './check %s --tier thorough' % pid,
        'evidence_file': 'evidence/%s.json' % pid,
        'replay_cmd_template': './check %s --replay {path}' % pid,
        'engine': 'fbverif',
        'level_claimed': {'category': m.LEVEL, 'text': m.LEVEL_TEXT, 'design_ref': 'DESIGN.md section 5 ' + pid},
        'level_note': m.LEVEL_NOTE,
        'technique': m.TECHNIQUE,
    })

manifest = {
    'version': 1,
    'setup_cmd': 'sh tools/setup.sh',
    'hooks': {
        'guard': 'FILE_BUILDER_VERIF',
        'enable': 'No source hooks are needed: the checks import /repo/file_builder from the working tree and install '
                  'their interposition proxies (os/threading/gzip/tempfile/open module globals of the library) at run '
                  'time from /verif/fbverif/interpose.py; ./check exports FILE_BUILDER_VERIF=1 for uniformity only.',
        'baseline_off_cmd': 'cd /repo && env -u FILE_BUILDER_VERIF /venv/bin/python -m pytest -ra -q -p no:cacheprovider --timeout=900 --continue-on-collection-errors',
        'source_commits': [],
        'add_only': True,
    },
    'engines': [{
        'name': 'fbverif',
        'path': 'fbverif/',
        'serves_properties': [c['property_id'] for c in checks],
        'kind_free_text': 'Hypothesis-driven differential/model-based property testing harness (reference model of the '
                          'documented from-scratch build semantics, program DSL interpreted against both the real '
                          'FileBuilder and the model, fault injection and deterministic scheduler by module-global '
                          'interposition), bounded-exhaustive enumeration for finite domains',
    }],
    'checks': checks,
    'not_applicable': na,
    'notes': 'All checks: ./check <ID> --tier quick|thorough; exit 0/1/2 = held / VIOLATION / harness error. '
             'Known findings: known_findings.json (committed, never written at run time). See DESIGN.md.',
}
with open(os.path.join(HERE, 'MANIFEST.json'), 'w') as f:
    json.dump(manifest, f, indent=1)
    f.write('\n')
print('checks:', [c['property_id'] for c in checks], 'not_applicable:', [n['property_id'] for n in na])
